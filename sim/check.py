"""./check <property> [--replay file] — quick/thorough driver for one property.

Environment: VERIF_TIER=quick|thorough, VERIF_SEED=<int>, VERIF_JOBS=<int>,
VERIF_RUNS=<int> (override run count), VERIF_BUDGET_S=<seconds> (wall cap for the sweep).
Exit codes: 0 held; 1 violation (with a VIOLATION line); 2 harness failure.
"""
import collections
import json
import os
import shutil
import sys
import tempfile
import time

from sim import core
from sim import orchestrator as orch
from sim import simplify

PROPS = {
    # prop: (quick runs, thorough runs, quick budget s, thorough budget s)
    'C09': (3000, 150000, 90, 1500),
    'C11': (5000, 250000, 90, 1500),
    'C12': (2500, 120000, 90, 1500),
    'C14': (2000, 100000, 90, 1500),
    'C16': (3000, 120000, 90, 1500),
}

LEVEL = 'exploration'
# where evidence/ and replays/ are written (overridden only by the mutant self-test)
OUT_DIR = os.environ.get('AEQ_OUT_DIR') or orch.VERIF_DIR

COMPONENTS = {
    'C09': (['Quantizer.calibrate', 'Calibrator', 'RecipeManager', 'algorithm_manager',
             'naive_min_max_quantize.min_max_calibrate/init_qsvs', 'calibration_utils',
             'tfl_interpreter_utils', 'LiteRT interpreter'],
            ['calibration dataset (fault-injecting iterable)',
             'durable store of the last returned result (pickle round trip in memory)']),
    'C11': (['Quantizer.update/load/get_quantization_recipe', 'RecipeManager',
             'algorithm_manager.check_op_quantization_config', 'default_policy'], []),
    'C12': (['Quantizer', 'QuantizationResult.save', 'gfile', 'RecipeManager', 'qtyping to_dict/from_dict',
             'ParamsGenerator', 'ModelModifier', 'Calibrator', 'LiteRT interpreter', 'JSON files on disk'],
            ['"restart" = fresh forked/exec\'d process under another PYTHONHASHSEED that sees only files']),
    'C14': (['Quantizer (two objects)', 'Calibrator', 'ParamsGenerator', 'ModelModifier',
             'transformation_instruction_generator', 'transformation_performer', 'model_validator',
             'LiteRT interpreter'],
            ['calibration/test datasets (fault-injecting iterables)']),
    'C16': (['Quantizer.quantize', 'ModelModifier.modify_model (both serializers)',
             'flatbuffer_utils', 'LiteRT interpreter'],
            ['size threshold (guarded knob AI_EDGE_QUANTIZER_VERIF_LARGE_MODEL_THRESHOLD)']),
}


def log(*a):
  print(*a, flush=True)


def main(argv):
  if len(argv) >= 2 and argv[1] == 'selftest-determinism':
    return selftest_determinism(argv[2:] or list(PROPS))
  if len(argv) < 2 or argv[1] not in PROPS:
    log('usage: check <%s> [--replay file] | check selftest-determinism [props]' % '|'.join(PROPS))
    return 2
  prop = argv[1]
  tier = os.environ.get('VERIF_TIER', 'quick')
  if tier not in ('quick', 'thorough'):
    tier = 'quick'
  seed = int(os.environ.get('VERIF_SEED', '1') or 1)
  jobs = int(os.environ.get('VERIF_JOBS', '16') or 16)
  scratch_root = '/dev/shm' if os.path.isdir('/dev/shm') and os.access('/dev/shm', os.W_OK) \
      else tempfile.gettempdir()
  # scratch directories of runs that were killed (wall-clock limit, SIGKILL) are not removed by
  # their owner: sweep those older than three hours (a thorough run lasts under one)
  try:
    for name in os.listdir(scratch_root):
      path = os.path.join(scratch_root, name)
      if name.startswith('aeqsim-') and time.time() - os.path.getmtime(path) > 3 * 3600:
        shutil.rmtree(path, ignore_errors=True)
  except OSError:
    pass
  scratch = tempfile.mkdtemp(prefix='aeqsim-%s-' % prop, dir=scratch_root)
  try:
    if '--replay' in argv:
      return replay(prop, argv[argv.index('--replay') + 1], scratch)
    return sweep(prop, tier, seed, jobs, scratch)
  except orch.HarnessError as e:
    log('HARNESS-ERROR:', e)
    return 2
  finally:
    shutil.rmtree(scratch, ignore_errors=True)


def selftest_determinism(props):
  """N seeds x {16 jobs, 2 jobs in fresh zygotes, other hash-seed class, freshly exec'd
  interpreter}: per-step event logs must be identical."""
  seed = int(os.environ.get('VERIF_SEED', '1') or 1)
  n = int(os.environ.get('VERIF_RUNS', '64') or 64)
  n_exec = int(os.environ.get('VERIF_EXEC_RUNS', '3') or 3)
  bad = 0
  for prop in props:
    digests = {}
    for jobs, swap in ((16, False), (2, True)):
      scratch = tempfile.mkdtemp(prefix='aeqsim-det-')
      eng = orch.Engine(prop, seed, jobs, scratch)
      try:
        items = []
        for i in range(n):
          rs = core.run_seed(seed, prop, i)
          a, b = core.classes_for_run(rs)
          items.append((i, {'prop': prop, 'rseed': rs, 'tier': 'quick'}, (b, a) if swap else (a, b)))
        res = eng.run_many(items)
        digests[(jobs, swap)] = {i: (v.result['log_digest'] if v.status == 'ok' else v.status)
                                 for i, v in res.items()}
        if not swap:
          docs = {i: v.doc for i, v in res.items() if v.status == 'ok'}
          hs = eng.pool.hash_seeds
      finally:
        eng.close()
        shutil.rmtree(scratch, ignore_errors=True)
    a, b = digests[(16, False)], digests[(2, True)]
    diff = [i for i in range(n) if a[i] != b[i]]
    scratch = tempfile.mkdtemp(prefix='aeqsim-det-')
    ex_diff = []
    try:
      for i in list(docs)[:n_exec]:
        r = orch.oneshot(prop, 1 + hs[0] % 1000003, 'run', {'prop': prop, 'doc': docs[i]}, scratch)
        if r['log_digest'] != a[i]:
          ex_diff.append(i)
    finally:
      shutil.rmtree(scratch, ignore_errors=True)
    log('%s: %d seeds, 16 jobs vs 2 jobs in fresh zygotes under the other hash-seed class: %d differ; '
        '%d re-executed in a freshly exec\'d interpreter under a third hash seed: %d differ'
        % (prop, n, len(diff), min(n_exec, len(docs)), len(ex_diff)))
    bad += len(diff) + len(ex_diff)
  return 0 if bad == 0 else 2


def replay(prop, path, scratch):
  with open(path) as f:
    doc = json.load(f)
  log('replaying %s (run_seed=%s) in freshly exec\'d interpreters, hash seeds %s'
      % (path, doc.get('run_seed'), doc.get('hash_seeds')))
  viol, res = orch.replay_fresh(prop, doc, scratch)
  for step in res['log']:
    log('  step', step)
  want = (doc.get('expect') or {}).get('cls')
  for v in viol:
    log('  violation:', v['cls'], 'step', v['step'], v['detail'])
  if viol and (want is None or any(v['cls'] == want for v in viol)):
    log('VIOLATION property=%s replay=%s' % (prop, path))
    return 1
  if viol:
    log('replay produced a different violation class than recorded (%s)' % want)
    log('VIOLATION property=%s replay=%s' % (prop, path))
    return 1
  log('replay: no violation')
  return 0


def sweep(prop, tier, seed, jobs, scratch):
  t_start = time.time()
  q_runs, t_runs, q_budget, t_budget = PROPS[prop]
  n_runs = int(os.environ.get('VERIF_RUNS') or (q_runs if tier == 'quick' else t_runs))
  budget = float(os.environ.get('VERIF_BUDGET_S') or (q_budget if tier == 'quick' else t_budget))
  log('seed=%d property=%s tier=%s jobs=%d planned_runs=%d budget_s=%d' %
      (seed, prop, tier, jobs, n_runs, budget))
  eng = orch.Engine(prop, seed, jobs, scratch, tier)
  log('zygotes ready in %.1fs, hash seeds %s' % (eng.pool.startup_s, eng.pool.hash_seeds))
  known = orch.load_known()
  try:
    # ---- determinism sample: the same runs in two different hash classes
    n_det = 12 if tier == 'quick' else 48
    det_items = []
    for i in range(n_det):
      rs = core.run_seed(seed, prop, i)
      s, r = core.classes_for_run(rs)
      det_items.append((('a', i), {'prop': prop, 'rseed': rs, 'tier': tier}, (s, r)))
      det_items.append((('b', i), {'prop': prop, 'rseed': rs, 'tier': tier}, (r, s)))
    det = eng.run_many(det_items)
    det_mismatch = []
    det_compared = 0
    for i in range(n_det):
      a, b = det[('a', i)], det[('b', i)]
      if a.status == 'ok' and b.status == 'ok':
        det_compared += 1
        if a.result['log_digest'] != b.result['log_digest']:
          det_mismatch.append(i)
    log('determinism sample: %d runs executed twice under two PYTHONHASHSEED classes, %d mismatches'
        % (det_compared, len(det_mismatch)))

    # ---- main sweep
    agg = {
        'runs': 0, 'ok': 0, 'inconclusive': 0, 'harness_error': 0, 'steps': 0,
        'obligations': 0, 'faults': collections.Counter(), 'probes': collections.Counter(),
        'sigs': set(), 'nontrivial_sigs': set(), 'states': set(), 'walls': 0.0,
    }
    violators = {}
    harness_notes = []
    samples = []
    inconclusive_notes = []
    exec_samples = []
    deadline = t_start + budget

    def on_done(v):
      agg['runs'] += 1
      agg[v.status] += 1
      agg['walls'] += v.wall
      if v.status == 'harness_error':
        harness_notes.append((v.key, v.note))
        return
      if v.status != 'ok':
        inconclusive_notes.append((v.key, v.note))
        return
      res = v.result
      agg['steps'] += res['steps']
      agg['obligations'] += v.n_obligations
      agg['faults'].update(res['faults'])
      agg['probes'].update(res['probes'])
      agg['sigs'].add(res['sig'])
      if res['nontrivial']:
        agg['nontrivial_sigs'].add(res['sig'])
      agg['states'].update(res['states'])
      if len(exec_samples) < 8 and res['nontrivial'] and res['steps'] <= 12:
        exec_samples.append((v.doc, (res['log_digest'], v.classes)))
      if len(samples) < 3 and res['nontrivial']:
        samples.append({'run_index': v.key, 'run_seed': v.doc['run_seed'],
                        'world': v.doc.get('world'), 'knobs': v.doc.get('knobs'),
                        'ops': v.doc['ops'], 'log': res['log']})
      if v.violations:
        violators[v.key] = v

    def items():
      for i in range(n_runs):
        rs = core.run_seed(seed, prop, i)
        yield (i, {'prop': prop, 'rseed': rs, 'tier': tier}, core.classes_for_run(rs))

    stop_early = lambda: time.time() > deadline or len(violators) >= 40
    eng.run_many(items(), on_done, stop_early)
    sweep_wall = time.time() - t_start
    log('sweep: %d runs (%d ok, %d inconclusive, %d harness errors), %d steps, %d obligations, %.1fs'
        % (agg['runs'], agg['ok'], agg['inconclusive'], agg['harness_error'], agg['steps'],
           agg['obligations'], sweep_wall))

    for key, note in inconclusive_notes[:5]:
      log('inconclusive run %s: %s' % (key, note))
    # ---- violations: classify, known findings, minimise, replay
    exit_code = 0
    reported = 0
    known_hits = collections.OrderedDict()
    by_class = collections.OrderedDict()
    for key in sorted(violators):
      v = violators[key]
      for viol in v.violations:
        k = orch.match_known(known, prop, viol)
        if k is not None:
          known_hits.setdefault(k['id'], (k, key))
          continue
        by_class.setdefault(viol['cls'], (v, viol))
        break
    for kid, (k, key) in known_hits.items():
      log('KNOWN-FINDING: property=%s %s (first seen at run %s)' % (prop, k['what'], key))
    for cls, (v, viol) in list(by_class.items())[:3]:
      doc = dict(v.doc)
      doc['hash_seeds'] = {'sut': eng.pool.hash_seeds[v.classes[0]],
                           'ref': eng.pool.hash_seeds[v.classes[1]]}
      log('violation at run %s: %s step %s: %s' % (v.key, cls, viol['step'], viol['detail']))
      mdoc, n1 = orch.ddmin_ops(eng, doc, v.classes, cls)
      mdoc, n2 = orch.simplify_doc(eng, mdoc, v.classes, cls, simplify.candidates)
      final = eng.run_doc(mdoc, v.classes)
      mv = [x for x in final.violations if x['cls'] == cls]
      if not mv:
        mdoc, mv = doc, [viol]
      mdoc['expect'] = {'cls': cls, 'step': mv[0]['step'], 'detail': mv[0]['detail']}
      mdoc['minimised'] = {'from_ops': len(doc['ops']), 'to_ops': len(mdoc['ops']),
                           'executions': n1 + n2}
      os.makedirs(os.path.join(OUT_DIR, 'replays'), exist_ok=True)
      path = os.path.join(OUT_DIR, 'replays', '%s-%d.json' % (prop, doc['run_seed']))
      with open(path, 'w') as f:
        f.write(core.dumps_json(mdoc))
      log('minimised %d -> %d operations in %d executions; confirming in fresh interpreters'
          % (len(doc['ops']), len(mdoc['ops']), n1 + n2))
      fresh_viol, _ = orch.replay_fresh(prop, mdoc, scratch)
      if any(x['cls'] == cls for x in fresh_viol):
        log('VIOLATION property=%s replay=%s' % (prop, path))
        log('  class=%s detail=%s' % (cls, mv[0]['detail']))
        exit_code = 1
        reported += 1
      else:
        log('HARNESS-ERROR: violation %s did not reproduce in fresh interpreters (replay %s)'
            % (cls, path))
        exit_code = max(exit_code, 2)
    if det_mismatch and prop != 'C14':
      log('HARNESS-ERROR: event logs differ between hash-seed classes for run indices %s'
          % det_mismatch[:5])
      exit_code = max(exit_code, 2)
    if det_mismatch and prop == 'C14':
      # For C14 this is the property itself: identical across runs and hash seeds.
      i = det_mismatch[0]
      a = det[('a', i)]
      cls = 'C14/hash-seed-dependence'
      doc = dict(a.doc)
      doc['hash_seeds'] = {'sut': eng.pool.hash_seeds[a.classes[0]],
                           'ref': eng.pool.hash_seeds[a.classes[1]]}
      mdoc, n1 = orch.ddmin_ops(eng, doc, a.classes, cls,
                                tester=orch.hashseed_tester(eng, doc, a.classes))
      mdoc['expect'] = {'cls': cls, 'step': 0, 'detail': 'event logs differ between hash-seed classes'}
      mdoc['minimised'] = {'from_ops': len(doc['ops']), 'to_ops': len(mdoc['ops']), 'executions': n1}
      os.makedirs(os.path.join(OUT_DIR, 'replays'), exist_ok=True)
      path = os.path.join(OUT_DIR, 'replays', '%s-%d-hashseed.json' % (prop, doc['run_seed']))
      with open(path, 'w') as f:
        f.write(core.dumps_json(mdoc))
      fresh_viol, _ = orch.replay_fresh(prop, mdoc, scratch)
      if any(x['cls'] == cls for x in fresh_viol):
        log('VIOLATION property=%s replay=%s' % (prop, path))
        log('  class=%s detail=%s' % (cls, [x for x in fresh_viol if x['cls'] == cls][0]['detail']))
        exit_code = max(exit_code, 1) if exit_code != 2 else 2
        reported += 1
      else:
        log('HARNESS-ERROR: hash-seed dependence did not reproduce in fresh interpreters (replay %s)' % path)
        exit_code = 2
    if harness_notes:
      log('HARNESS-ERROR: %d runs raised inside the harness; first:\n%s'
          % (len(harness_notes), harness_notes[0][1]))
      exit_code = max(exit_code, 2)
    if agg['runs'] and agg['inconclusive'] > max(2, 0.02 * agg['runs']):
      log('HARNESS-ERROR: %d of %d runs inconclusive (>2%%)' % (agg['inconclusive'], agg['runs']))
      exit_code = max(exit_code, 2)
    if agg['ok'] == 0:
      log('HARNESS-ERROR: no run completed')
      exit_code = max(exit_code, 2)
    elif len(agg['nontrivial_sigs']) < 2 and not violators:
      # e.g. the hook is gone and the large-model path never ran: nothing was decided
      log('HARNESS-ERROR: fewer than 2 non-trivial cases explored; the workload did not reach the '
          'behaviour the property is about')
      exit_code = max(exit_code, 2)
    stuck = [p for p in simplify.EXPECTED_PROBES.get(prop, []) if not agg['probes'].get(p)
             and not agg['faults'].get(p)]
    if stuck:
      log('warning: probes stuck at zero: %s' % stuck)

    # ---- fork-vs-exec sample: re-execute a few runs (and their references) in freshly
    # exec'd interpreters; the forked stand-in must not hide anything
    n_exec = int(os.environ.get('VERIF_EXEC_RUNS') or (1 if tier == 'quick' else 6))
    exec_checked, exec_mismatch = 0, 0
    if not violators and exit_code == 0:
      for doc, want in exec_samples[:n_exec]:
        d = dict(doc)
        d['hash_seeds'] = {'sut': eng.pool.hash_seeds[want[1][0]], 'ref': eng.pool.hash_seeds[want[1][1]]}
        fv, fres = orch.replay_fresh(prop, d, scratch, max_obligations=2)
        exec_checked += 1
        if fres['log_digest'] != want[0] or fv:
          exec_mismatch += 1
          log('HARNESS-ERROR: run %s differs when re-executed in freshly exec\'d interpreters (%s)'
              % (doc['run_seed'], [x['cls'] for x in fv]))
          exit_code = 2
      log('fork-vs-exec sample: %d runs re-executed in fresh interpreters, %d differ' % (exec_checked, exec_mismatch))
    if reported > 0:
      # a replay-confirmed violation is the answer; harness complaints above stay as warnings
      exit_code = 1
    wall = time.time() - t_start
    real, stub = COMPONENTS[prop]
    ev = {
        'property_id': prop, 'tier': tier, 'seed': seed, 'level': LEVEL,
        'wall_s': round(wall, 2), 'violations': reported,
        'coverage': {
            'evaluations': agg['ok'],
            'distinct_nontrivial': len(agg['nontrivial_sigs']),
            'rule': simplify.RULES[prop],
            'samples': samples,
            'runs_planned': n_runs, 'runs_executed': agg['runs'],
            'budget_exhausted': agg['runs'] < n_runs,
            'run_index_range': [0, max(0, agg['runs'] - 1)],
            'runs_per_hour': int(agg['runs'] / max(wall, 1e-9) * 3600),
            'seeds_per_hour': int(agg['runs'] / max(wall, 1e-9) * 3600),
            'steps': agg['steps'],
            'reference_obligations_discharged': agg['obligations'],
            'fault_counts_fired': dict(sorted(agg['faults'].items())),
            'probe_hits': dict(sorted(agg['probes'].items())),
            'probes_stuck_at_zero': stuck,
            'distinct_operation_outcome_sequences': len(agg['sigs']),
            'distinct_states': len(agg['states']),
            'inconclusive_runs': agg['inconclusive'],
            'inconclusive_notes': [n for _, n in inconclusive_notes[:5]],
            'harness_errors': agg['harness_error'],
            'determinism_sample': {'runs_executed_twice': det_compared,
                                   'log_digest_mismatches': len(det_mismatch)},
            'fork_vs_exec_sample': {'runs_reexecuted_in_fresh_interpreters': exec_checked,
                                    'differ': exec_mismatch},
            'hash_seeds': eng.pool.hash_seeds,
            'known_findings_met': list(known_hits.keys()),
            'components_real': real, 'components_stub': stub,
            'simulated_time': 'none - the system reads no clock; progress is counted in steps',
            'jobs': jobs,
        },
        'assumptions': simplify.ASSUMPTIONS[prop],
    }
    os.makedirs(os.path.join(OUT_DIR, 'evidence'), exist_ok=True)
    with open(os.path.join(OUT_DIR, 'evidence', prop + '.json'), 'w') as f:
      f.write(core.dumps_json(ev))
    log('evidence written; exit %d' % exit_code)
    return exit_code
  finally:
    eng.close()


if __name__ == '__main__':
  sys.exit(main(sys.argv))
