"""Library-free per-property metadata and JSON-level trace simplification."""
import copy

RULES = {
    'C11': ('one case = one seeded history of add/load/export operations on two recipe managers '
            '(behind the Quantizer facade), probed after every step at every (operator, scope) of '
            'the probe grid against the sequential reference model; non-trivial = at least two '
            'accepted edits before a probed step; distinct = different sequence of '
            '(operation kind, outcome class) pairs'),
    'C09': ('one case = one seeded history of resumed calibration sessions (dataset cut into '
            'sessions on two Quantizer objects, stream failures and retries injected) compared with '
            'the one-pass result of a fresh process and with the float64 EMA reference; non-trivial = '
            'the history has at least one resumed session (previous result passed in); distinct = '
            'different sequence of (operation kind, outcome class) pairs'),
    'C12': ('one case = one seeded history of recipe edits, quantize, save and restart-from-disk; '
            'non-trivial = at least one restart whose reload was compared; distinct = different '
            'sequence of (operation kind, outcome class) pairs'),
    'C14': ('one case = one seeded interleaving of recipe edits, calibrate, quantize, validate on two '
            'Quantizer objects sharing caller-owned values; non-trivial = at least one quantize on a '
            'calibration result or object touched by an earlier call; distinct = different sequence '
            'of (operation kind, outcome class) pairs'),
    'C16': ('one case = one seeded (model, recipe, threshold knob) history pushed through both '
            'serializers; non-trivial = the large-model path actually ran and produced at least one '
            'external buffer; distinct = different sequence of (operation kind, outcome class) pairs'),
}

ASSUMPTIONS = {
    'C11': ['algorithm_manager.check_op_quantization_config is used as a black box by the reference '
            'model (whether the check itself is right is C13)',
            'atomicity of a failed load is unspecified: the model is re-synchronised from the export'],
    'C09': ['the LiteRT interpreter instance of the harness computes the same float tensors as the one '
            'inside the calibrator (same native code, separate instance)',
            'float32 EMA vs float64 reference compared with 1e-5 relative tolerance',
            'fork from a zygote that only imported the library stands in for a fresh interpreter; '
            'replays use a real exec'],
    'C12': ['disk faults on the saved files are not injected (no property says what should happen)',
            'fork-from-zygote stands in for a fresh process; replays use a real exec'],
    'C14': ['fork-from-zygote stands in for a fresh process; replays use a real exec',
            'flatbuffer serialisation is deterministic (checked by the determinism sample)'],
    'C16': ['tensorflow.lite flatbuffer_utils.read_model_from_bytearray resolves external buffers',
            'the threshold hook only lowers the constant in the existing comparison'],
}

EXPECTED_PROBES = {
    'C11': ['rejected_update', 'torn_load', 'unregistered_algorithm_accepted', 'add_star_reset',
            'add_replaced', 'rule_skipped_at_resolution'],
    'C09': ['stream_fail', 'stream_fail_first', 'stream_fail_last', 'one_shot_stream',
            'resume_other_object', 'sessions_ge3', 'empty_session', 'retry'],
    'C12': ['restart', 'rejected_update', 'torn_load', 'save_existing', 'second_generation_restart'],
    'C14': ['stream_fail', 'quantize_without_stats', 'foreign_stats', 'rejected_update', 'torn_load',
            'validate_before_quantize', 'shared_stats_two_recipes', 'second_quantize_same_object'],
    'C16': ['large_path', 'threshold_boundary_below', 'threshold_boundary_equal', 'odd_int4_tail',
            'no_constants', 'hook_inert'],
}


def candidates(doc):
  """Yield simpler variants of a trace document (pure JSON edits)."""
  ops = doc['ops']
  # 1. drop fault annotations
  for i, o in enumerate(ops):
    if o.get('fault'):
      d = copy.deepcopy(doc)
      d['ops'][i]['fault'] = None
      yield d
  # 2. simpler configs / spelling
  for i, o in enumerate(ops):
    if o.get('spelling') == 'str':
      d = copy.deepcopy(doc)
      d['ops'][i]['spelling'] = 'enum'
      yield d
  # 3. shorter rule lists in loads
  for i, o in enumerate(ops):
    if o.get('op') == 'load' and isinstance(o.get('rules'), list) and len(o['rules']) > 1:
      for j in range(len(o['rules'])):
        d = copy.deepcopy(doc)
        del d['ops'][i]['rules'][j]
        yield d
  # 4. smaller datasets / chunks
  world = doc.get('world') or {}
  for k, ds in enumerate(world.get('datasets') or []):
    if ds.get('n', 0) > 1:
      d = copy.deepcopy(doc)
      d['world']['datasets'][k]['n'] = ds['n'] - 1
      d['world']['datasets'][k]['scales'] = ds['scales'][:ds['n'] - 1]
      yield d
  for i, o in enumerate(ops):
    if o.get('op') == 'calibrate' and o.get('hi', 0) - o.get('lo', 0) > 1:
      d = copy.deepcopy(doc)
      d['ops'][i]['hi'] = o['hi'] - 1
      yield d
  # 5. smaller models
  for k, m in enumerate(world.get('models') or []):
    if m.get('kind') == 'gen' and m.get('max_ops', 1) > 1:
      d = copy.deepcopy(doc)
      d['world']['models'][k]['max_ops'] = m['max_ops'] - 1
      yield d
