"""Orchestrator: zygote pool, run state machine, minimiser, replay, evidence.

Never imports the library under test.
"""
import collections
import json
import os
import selectors
import shutil
import subprocess
import sys
import tempfile
import time

from sim import core

VERIF_DIR = os.path.dirname(os.path.dirname(os.path.abspath(__file__)))
REPO = os.environ.get('AEQ_REPO', '/repo')
PY = os.environ.get('AEQ_PYTHON', '/venv/bin/python')


def child_env(hashseed, scratch):
  env = dict(os.environ)
  env['PYTHONHASHSEED'] = str(hashseed)
  env['PYTHONPATH'] = REPO + os.pathsep + VERIF_DIR
  env[core.GUARD] = '1'
  env['AEQ_REPO'] = REPO
  env['AEQ_SCRATCH'] = scratch
  env['TF_CPP_MIN_LOG_LEVEL'] = '3'
  env['PYTHONDONTWRITEBYTECODE'] = '1'
  env.pop('AI_EDGE_QUANTIZER_VERIF_LARGE_MODEL_THRESHOLD', None)
  return env


class Zygote:

  def __init__(self, cls, hashseed, scratch):
    self.cls, self.hashseed = cls, hashseed
    self.errlog = os.path.join(scratch, 'zygote-%d.err' % cls)
    self.err = open(self.errlog, 'wb')
    self.p = subprocess.Popen([PY, '-m', 'sim.zygote'], stdin=subprocess.PIPE,
                              stdout=subprocess.PIPE, stderr=self.err, cwd=VERIF_DIR,
                              env=child_env(hashseed, scratch))
    self.fb = core.FrameBuffer()
    self.ready = False
    self.alive = True
    self.inflight = 0

  def send(self, req):
    core.write_frame(self.p.stdin.fileno(), req)

  def close(self):
    try:
      if self.alive:
        self.send({'kind': 'quit', 'id': -1})
        self.p.stdin.close()
    except Exception:  # pylint: disable=broad-except
      pass
    try:
      self.p.wait(timeout=10)
    except Exception:  # pylint: disable=broad-except
      self.p.kill()
    self.err.close()


class HarnessError(Exception):
  pass


class Pool:
  """N_HASH_CLASSES fork servers, one per PYTHONHASHSEED class."""

  def __init__(self, verif_seed, scratch):
    self.scratch = scratch
    self.hash_seeds = core.hash_seeds_for(verif_seed)
    self.z = [Zygote(k, hs, scratch) for k, hs in enumerate(self.hash_seeds)]
    self.sel = selectors.DefaultSelector()
    for z in self.z:
      os.set_blocking(z.p.stdout.fileno(), False)
      self.sel.register(z.p.stdout.fileno(), selectors.EVENT_READ, z)
    self.next_id = 0
    self.jobs = {}   # id -> (cls, t0)
    t0 = time.time()
    while not all(z.ready for z in self.z):
      if time.time() - t0 > 240:
        raise HarnessError('zygotes did not become ready: ' + self.tail_errors())
      for msg_z, msg in self._read(1.0):
        if msg.get('ready'):
          msg_z.ready = True
    self.startup_s = time.time() - t0

  def tail_errors(self):
    out = []
    for z in self.z:
      try:
        with open(z.errlog, 'rb') as f:
          out.append(f.read()[-1500:].decode('utf8', 'replace'))
      except OSError:
        pass
    return '\n'.join(out)

  def _read(self, timeout):
    out = []
    for key, _ in self.sel.select(timeout):
      z = key.data
      try:
        data = os.read(key.fd, 1 << 20)
      except BlockingIOError:
        continue
      if not data:
        self.sel.unregister(key.fd)
        z.alive = False
        if self.jobs:
          raise HarnessError('zygote %d exited unexpectedly: %s' % (z.cls, self.tail_errors()))
        continue
      for msg in z.fb.feed(data):
        out.append((z, msg))
    return out

  def submit(self, cls, kind, payload, cap=60):
    self.next_id += 1
    jid = self.next_id
    self.jobs[jid] = (cls, time.time())
    self.z[cls].send({'id': jid, 'kind': kind, 'payload': payload, 'cap': cap})
    return jid

  def poll(self, timeout=0.5):
    done = []
    for _, msg in self._read(timeout):
      if 'id' in msg and msg['id'] in self.jobs:
        del self.jobs[msg['id']]
        done.append(msg)
    return done

  def close(self):
    for z in self.z:
      z.close()


class Verdict:
  """Outcome of one run (a doc executed + its obligations discharged)."""

  def __init__(self, key):
    self.key = key
    self.status = 'pending'   # ok | inconclusive | harness_error
    self.violations = []
    self.result = None
    self.doc = None
    self.note = ''
    self.wall = 0.0
    self.n_obligations = 0
    self.classes = None

  def classes_of(self):
    return sorted(set(v['cls'] for v in self.violations))


class Engine:

  def __init__(self, prop, verif_seed, jobs, scratch, tier='quick'):
    self.prop, self.verif_seed, self.jobs, self.tier = prop, verif_seed, jobs, tier
    self.scratch = scratch
    self.pool = Pool(verif_seed, scratch)
    self.active = {}     # jid -> (verdict, role, ob)
    self.waiting = {}    # key -> set of outstanding jids
    self.run_cap = 90
    self.ref_cap = 90

  def close(self):
    self.pool.close()

  # -- submitting
  def _start(self, key, payload, classes):
    v = Verdict(key)
    v.classes = classes
    jid = self.pool.submit(classes[0], 'run', payload, self.run_cap)
    self.active[jid] = (v, 'run', None)
    return v

  def _on_msg(self, msg, finished):
    v, role, ob = self.active.pop(msg['id'])
    st = msg['status']
    v.wall += msg.get('wall', 0)
    if role == 'run':
      if st == 'error':
        v.status = 'harness_error'
        v.note = (msg['result'] or {}).get('trace', '')[-3000:]
        finished.append(v)
        return
      if st != 'ok':
        v.status = 'inconclusive'
        v.note = 'run child ' + st
        finished.append(v)
        return
      res = msg['result']['value']
      v.result = res
      v.doc = res.pop('doc')
      v.violations = list(res['violations'])
      obs = res.pop('obligations')
      v.n_obligations = len(obs)
      if not obs:
        v.status = 'ok'
        finished.append(v)
        return
      self.waiting[id(v)] = set()
      for o in obs:
        jid = self.pool.submit(v.classes[1], 'ref', {'prop': self.prop, 'ob': o['payload']},
                               self.ref_cap)
        meta = {k: o[k] for k in ('oid', 'cls', 'step', 'expect', 'detail')}
        self.active[jid] = (v, 'ref', meta)
        self.waiting[id(v)].add(jid)
      return
    # role == 'ref'
    w = self.waiting[id(v)]
    w.discard(msg['id'])
    if st == 'error':
      v.status = 'harness_error'
      v.note = (msg['result'] or {}).get('trace', '')[-3000:]
    elif st != 'ok':
      if v.status == 'pending':
        v.status = 'inconclusive'
        v.note = 'reference child ' + st
    else:
      viol = compare_obligation(ob, msg['result']['value'])
      if viol is not None:
        v.violations.append(viol)
    if not w:
      del self.waiting[id(v)]
      if v.status == 'pending':
        v.status = 'ok'
      v.violations.sort(key=lambda x: (x['step'], x['cls']))
      finished.append(v)

  def run_many(self, items, on_done=None, stop=None):
    """items: iterable of (key, payload, (sut_cls, ref_cls)). Returns {key: Verdict}."""
    it = iter(items)
    out = {}
    exhausted = False
    inflight = 0
    while True:
      while not exhausted and inflight < self.jobs and not (stop and stop()):
        try:
          key, payload, classes = next(it)
        except StopIteration:
          exhausted = True
          break
        self._start(key, payload, classes)
        inflight += 1
      if inflight == 0:
        break
      finished = []
      for msg in self.pool.poll(0.5):
        self._on_msg(msg, finished)
      for v in finished:
        inflight -= 1
        out[v.key] = v
        if on_done:
          on_done(v)
      if stop and stop():
        exhausted = True
    return out

  def run_doc(self, doc, classes):
    return self.run_many([(0, {'prop': self.prop, 'doc': doc}, classes)])[0]


def compare_obligation(ob, ans):
  """None if the reference answer equals the expectation, else a violation dict.

  ob['cls'] is a class name (whole-value comparison) or an ordered list of
  [subkey, class] pairs (first differing subkey decides the class).
  """
  exp = ob['expect']
  if isinstance(ob['cls'], str):
    if ans == exp:
      return None
    return {'cls': ob['cls'], 'step': ob['step'],
            'detail': '%s: observed %s, fresh-process reference %s'
                      % (ob['detail'], _short(exp), _short(ans))}
  for key, cls in ob['cls']:
    if exp.get(key) is None and key != 'load':
      continue
    if ans.get(key) != exp.get(key):
      if str(ans.get(key)).startswith('raise:') and cls.endswith('reload-raises'):
        cls = cls + '/' + str(ans.get(key)).split(':')[-1]
      return {'cls': cls, 'step': ob['step'],
              'detail': '%s: %s: observed %s, fresh-process reference %s'
                        % (ob['detail'], key, _short(exp.get(key)), _short(ans.get(key)))}
  return None


def _short(x):
  s = json.dumps(x, default=str) if not isinstance(x, str) else x
  return s if len(s) <= 200 else s[:200] + '...'


# ------------------------------------------------------------------ minimiser


def violation_tester(engine, doc, classes, target_cls):
  """Returns test_many(list of ops lists) -> [bool]: does the violation class persist?"""
  def test_many(cands):
    items = []
    for i, ops in enumerate(cands):
      d = dict(doc)
      d['ops'] = ops
      items.append((i, {'prop': engine.prop, 'doc': d}, classes))
    res = engine.run_many(items)
    return [target_cls in res[i].classes_of() if res[i].status == 'ok' else False
            for i in range(len(cands))]
  return test_many


def hashseed_tester(engine, doc, classes):
  """Persisting violation = event logs differ between the two hash-seed classes."""
  def test_many(cands):
    items = []
    for i, ops in enumerate(cands):
      d = dict(doc)
      d['ops'] = ops
      items.append(((i, 0), {'prop': engine.prop, 'doc': d}, classes))
      items.append(((i, 1), {'prop': engine.prop, 'doc': d}, (classes[1], classes[0])))
    res = engine.run_many(items)
    out = []
    for i in range(len(cands)):
      a, b = res[(i, 0)], res[(i, 1)]
      out.append(a.status == 'ok' and b.status == 'ok'
                 and a.result['log_digest'] != b.result['log_digest'])
    return out
  return test_many


def ddmin_ops(engine, doc, classes, target_cls, budget_s=90, max_exec=200, tester=None):
  """Delta debugging over doc['ops'] preserving a violation of class target_cls."""
  t0 = time.time()
  execs = [0]
  inner = tester or violation_tester(engine, doc, classes, target_cls)

  def test_many(cands):
    execs[0] += len(cands)
    return inner(cands)

  ops = list(doc['ops'])
  n = 2
  while len(ops) >= 2 and time.time() - t0 < budget_s and execs[0] < max_exec:
    chunk = max(1, len(ops) // n)
    subsets = [ops[i:i + chunk] for i in range(0, len(ops), chunk)]
    complements = [[o for j, s in enumerate(subsets) if j != i for o in s]
                   for i in range(len(subsets))]
    cands = subsets + (complements if len(subsets) > 2 else [])
    oks = test_many(cands)
    hit = None
    for i, ok in enumerate(oks):
      if ok:
        hit = i
        break
    if hit is not None:
      ops = cands[hit]
      n = max(2, n - 1) if hit >= len(subsets) else 2
    else:
      if n >= len(ops):
        break
      n = min(len(ops), n * 2)
  d = dict(doc)
  d['ops'] = ops
  return d, execs[0]


def simplify_doc(engine, doc, classes, target_cls, candidates_fn, budget_s=60, max_exec=120):
  """Greedy argument simplification: candidates_fn(doc) yields simpler docs."""
  t0 = time.time()
  execs = 0
  improved = True
  while improved and time.time() - t0 < budget_s and execs < max_exec:
    improved = False
    cands = list(candidates_fn(doc))[:32]
    if not cands:
      break
    items = [(i, {'prop': engine.prop, 'doc': c}, classes) for i, c in enumerate(cands)]
    execs += len(items)
    res = engine.run_many(items)
    for i in range(len(cands)):
      if res[i].status == 'ok' and target_cls in res[i].classes_of():
        doc = cands[i]
        improved = True
        break
  return doc, execs


# ------------------------------------------------------------------ replay


def oneshot(prop, hashseed, kind, payload, scratch, timeout=300):
  """Execute one request in a freshly exec'd interpreter (no fork)."""
  import pickle
  import struct
  data = pickle.dumps({'id': 1, 'kind': kind, 'payload': payload, 'cap': timeout}, protocol=4)
  p = subprocess.run([PY, '-m', 'sim.zygote', '--oneshot'],
                     input=struct.pack('>I', len(data)) + data, stdout=subprocess.PIPE,
                     stderr=subprocess.PIPE, cwd=VERIF_DIR, env=child_env(hashseed, scratch),
                     timeout=timeout)
  if p.returncode != 0 or len(p.stdout) < 4:
    raise HarnessError('oneshot interpreter failed (rc=%s): %s'
                       % (p.returncode, p.stderr[-2000:].decode('utf8', 'replace')))
  msg = pickle.loads(p.stdout[4:])
  if msg['status'] != 'ok':
    raise HarnessError('oneshot error: ' + str((msg['result'] or {}).get('trace'))[-2000:])
  return msg['result']['value']


def replay_fresh(prop, doc, scratch, max_obligations=None):
  """Replay a doc in freshly exec'd interpreters; returns list of violations."""
  hs = doc['hash_seeds']
  res = oneshot(prop, hs['sut'], 'run', {'prop': prop, 'doc': doc}, scratch)
  viol = list(res['violations'])
  if ((doc.get('expect') or {}).get('cls') or '').endswith('hash-seed-dependence'):
    res2 = oneshot(prop, hs['ref'], 'run', {'prop': prop, 'doc': doc}, scratch)
    if res['log_digest'] != res2['log_digest']:
      step = next((i for i, (a, b) in enumerate(zip(res['log'], res2['log'])) if a != b), 0)
      viol.append({'cls': doc['expect']['cls'], 'step': step,
                   'detail': 'event logs differ between PYTHONHASHSEED=%s and %s: %s vs %s'
                             % (hs['sut'], hs['ref'], res['log'][step:step + 1], res2['log'][step:step + 1])})
    return viol, res
  for o in res['obligations'][:max_obligations]:
    ans = oneshot(prop, hs['ref'], 'ref', {'prop': prop, 'ob': o['payload']}, scratch)
    one = compare_obligation(o, ans)
    if one is not None:
      viol.append(one)
  return viol, res


# ------------------------------------------------------------------ known findings


def load_known():
  path = os.path.join(VERIF_DIR, 'known_findings.json')
  if not os.path.exists(path):
    return {'known': [], 'fixed': []}
  with open(path) as f:
    return json.load(f)


def match_known(known, prop, violation):
  """A known finding matches on property, class and a literal substring of the detail."""
  for k in known.get('known', []):
    if k['property'] != prop or k['cls'] != violation['cls']:
      continue
    if all(s in violation['detail'] for s in k.get('detail_contains', [])):
      return k
  return None
