"""Recipe alphabet: regexes, operator selectors, algorithms, configs.

Everything here is plain JSON-able data; `mk_config` (child side) turns a config
description into an OpQuantizationConfig, spelling enum-valued fields either as enum
members or as their string values.
"""

ALL_OPS = [
    '*', 'INPUT', 'OUTPUT', 'FULLY_CONNECTED', 'BATCH_MATMUL', 'DEPTHWISE_CONV_2D',
    'CONV_2D', 'CONV_2D_TRANSPOSE', 'AVERAGE_POOL_2D', 'RESHAPE', 'CUSTOM_OP',
    'EMBEDDING_LOOKUP', 'SOFTMAX', 'TANH', 'TRANSPOSE', 'GELU', 'ADD', 'SUB', 'MUL',
    'MEAN', 'RSQRT', 'CONCATENATION', 'STRIDED_SLICE', 'SPLIT', 'LOGISTIC',
]

MINMAX = 'min_max_uniform_quantize'
FLOATCAST = 'float_casting'
NOQ = 'no_quantize'
BOGUS = 'not_a_registered_algorithm'
BOGUS_UPPER = 'Custom_GPTQ'      # an unregistered key with upper-case letters (user-registered style)
ALGOS = [MINMAX, FLOATCAST, NOQ, BOGUS]


def bogus_spelling(r, algo):
  """Two spellings of 'an algorithm key the library does not know'."""
  return r.choice([BOGUS, BOGUS_UPPER]) if algo == BOGUS else algo


def _t(bits, sym=True, gran='TENSORWISE', dtype='INT', block=0):
  return dict(num_bits=bits, symmetric=sym, granularity=gran, dtype=dtype, block_size=block)


def _c(act=None, w=None, cp='FLOAT', xd=False, skip=False):
  d = {}
  if act is not None:
    d['activation_tensor_config'] = act
  if w is not None:
    d['weight_tensor_config'] = w
  d['compute_precision'] = cp
  d['explicit_dequantize'] = xd
  d['skip_checks'] = skip
  return d


# name -> description (None = "pass op_config=None", the documented default)
CONFIGS = {
    'none': None,
    'default': _c(),
    'wo8_ch': _c(w=_t(8, True, 'CHANNELWISE'), cp='FLOAT', xd=True),
    'wo8_asym': _c(w=_t(8, False, 'TENSORWISE'), cp='FLOAT', xd=True),
    'wo4_t': _c(w=_t(4, True, 'TENSORWISE'), cp='FLOAT', xd=True),
    'wo4_ch': _c(w=_t(4, True, 'CHANNELWISE'), cp='FLOAT', xd=True),
    'drq8_ch': _c(w=_t(8, True, 'CHANNELWISE'), cp='INTEGER'),
    'drq8_t': _c(w=_t(8, True, 'TENSORWISE'), cp='INTEGER'),
    'drq4_ch': _c(w=_t(4, True, 'CHANNELWISE'), cp='INTEGER'),
    'a8w8': _c(act=_t(8, False), w=_t(8, True, 'CHANNELWISE'), cp='INTEGER'),
    'a8w8_t': _c(act=_t(8, False), w=_t(8, True, 'TENSORWISE'), cp='INTEGER'),
    'a8sw8': _c(act=_t(8, True), w=_t(8, True, 'CHANNELWISE'), cp='INTEGER'),
    'a16w8': _c(act=_t(16, True), w=_t(8, True, 'CHANNELWISE'), cp='INTEGER'),
    'a8w4': _c(act=_t(8, False), w=_t(4, True, 'CHANNELWISE'), cp='INTEGER'),
    'a16w4': _c(act=_t(16, True), w=_t(4, True, 'TENSORWISE'), cp='INTEGER'),
    'fp16': _c(w=_t(16, True, 'TENSORWISE', 'FLOAT'), cp='FLOAT', xd=True),
    # never accepted by a check:
    'bad_w16': _c(w=_t(16, True, 'TENSORWISE'), cp='INTEGER'),
    'bad_drq_asym': _c(w=_t(8, False, 'CHANNELWISE'), cp='INTEGER'),
    'bad_a16asym': _c(act=_t(16, False), w=_t(8, True, 'CHANNELWISE'), cp='INTEGER'),
    'bad_wo8_noxd': _c(w=_t(8, True, 'CHANNELWISE'), cp='FLOAT', xd=False),
    'bad_w2': _c(w=_t(2, True, 'TENSORWISE'), cp='INTEGER'),
    # block_size set although the granularity is not BLOCKWISE (legal dataclass values; the policy
    # compares whole configs, so these are refused for a specific operator and skipped under '*'):
    'drq8_ch_b32': _c(w=_t(8, True, 'CHANNELWISE', block=32), cp='INTEGER'),
    'wo8_t_b16': _c(w=_t(8, True, 'TENSORWISE', block=16), cp='FLOAT', xd=True),
    'a8w8_actb8': _c(act=_t(8, False, block=8), w=_t(8, True, 'CHANNELWISE'), cp='INTEGER'),
    # genuine blockwise (not in the default policy):
    'wo4_blk32': _c(w=_t(4, True, 'BLOCKWISE', block=32), cp='FLOAT', xd=True),
    'skip_wo4_blk32': _c(w=_t(4, True, 'BLOCKWISE', block=32), cp='FLOAT', xd=True, skip=True),
    # block sizes that divide the small input dimensions of generated FULLY_CONNECTED ops, so that
    # the emulated sub-channel rewrite really runs:
    'skip_wo4_blk2': _c(w=_t(4, True, 'BLOCKWISE', block=2), cp='FLOAT', xd=True, skip=True),
    'skip_wo8_blk4': _c(w=_t(8, True, 'BLOCKWISE', block=4), cp='FLOAT', xd=True, skip=True),
    # accepted only because checks are skipped:
    'skip_bad_w16': _c(w=_t(16, True, 'TENSORWISE'), cp='INTEGER', skip=True),
    'skip_a8w8': _c(act=_t(8, False), w=_t(8, True, 'CHANNELWISE'), cp='INTEGER', skip=True),
}
CONFIG_NAMES = list(CONFIGS)
ODD_CONFIGS = ['drq8_ch_b32', 'wo8_t_b16', 'a8w8_actb8', 'wo4_blk32', 'skip_wo4_blk32']
BLOCKWISE_RUNNABLE = ['skip_wo4_blk2', 'skip_wo8_blk4']
STATIC_CONFIGS = ['a8w8', 'a8w8_t', 'a8sw8', 'a16w8', 'a8w4', 'a16w4']
WEIGHT_CONFIGS = ['wo8_ch', 'wo8_asym', 'wo4_t', 'wo4_ch', 'drq8_ch', 'drq8_t', 'drq4_ch']
GOOD_FOR = {
    MINMAX: STATIC_CONFIGS + WEIGHT_CONFIGS,
    FLOATCAST: ['fp16'],
    NOQ: ['none', 'default', 'a8w8', 'wo8_ch', 'fp16'],
    BOGUS: ['none', 'a8w8', 'skip_a8w8'],
}
GOOD_FOR[BOGUS_UPPER] = GOOD_FOR[BOGUS]
_STATIC_OPS = ['ADD', 'AVERAGE_POOL_2D', 'BATCH_MATMUL', 'CONCATENATION', 'CONV_2D', 'CONV_2D_TRANSPOSE',
               'DEPTHWISE_CONV_2D', 'FULLY_CONNECTED', 'GELU', 'LOGISTIC', 'MEAN', 'MUL', 'RESHAPE', 'RSQRT',
               'SOFTMAX', 'SPLIT', 'STRIDED_SLICE', 'SUB', 'TANH', 'TRANSPOSE', 'INPUT', 'OUTPUT']
_W8_OPS = ['BATCH_MATMUL', 'CONV_2D', 'CONV_2D_TRANSPOSE', 'DEPTHWISE_CONV_2D', 'EMBEDDING_LOOKUP',
           'FULLY_CONNECTED']


def likely_good_configs(op, algo):
  """Generator-side guess of configs the library accepts for (op, algo); only steers the mix."""
  if algo == NOQ:
    return GOOD_FOR[NOQ]
  if algo in (BOGUS, BOGUS_UPPER):
    return GOOD_FOR[BOGUS]
  if algo == FLOATCAST:
    return ['fp16']
  if op == '*':
    return STATIC_CONFIGS + WEIGHT_CONFIGS
  out = []
  if op in _STATIC_OPS:
    out += ['a8w8', 'a8w8_t', 'a8sw8', 'a16w8']
  if op in ('FULLY_CONNECTED', 'CONV_2D', 'INPUT', 'OUTPUT'):
    out += ['a8w4', 'a16w4']
  if op in _W8_OPS:
    out += ['wo8_ch', 'wo8_asym', 'drq8_ch', 'drq8_t']
  if op in ('FULLY_CONNECTED', 'EMBEDDING_LOOKUP'):
    out += ['drq4_ch', 'wo4_t', 'wo4_ch']
  if op == 'BATCH_MATMUL':
    out += ['wo4_t', 'wo4_ch']
  return out or ['a8w8']


SHIPPED = ['default_a8w8_recipe', 'default_a16w8_recipe', 'default_af32w4float_recipe',
           'default_af32w8float_recipe', 'dynamic_wi8_afp32_recipe']
SHIPPED_NEED_CALIB = {'default_a8w8_recipe': True, 'default_a16w8_recipe': True}

# abstract scopes for the model-free probe grid (C11); regexes are built against them
GRID_SCOPES = [
    '', 'serving_default_x:0', 'blk0/fc1/out', 'blk0/fc2/out;', 'blk1/fc1/out',
    'enc/conv;enc/conv/bias;', 'dec/l0/attn/softmax', 'head;logits:0', 'fc', 'blk10/fc1/out',
    'StatefulPartitionedCall:0',
]
GRID_REGEXES = [
    '.*', 'blk0', 'blk0/', 'blk1/fc1/out', 'fc1', '^blk', '^fc$', 'fc', 'out;?$', 'enc|dec',
    'blk[01]/fc1', ';', 'head;logits:0', 'nomatch_zzz', 'conv', '/l0/', 'x:0', '^$', 'blk1',
    # '.' as a wildcard inside otherwise plain names, and as a literal
    'blk0.fc1', 'fc1.out', 'enc.conv', 'l0.attn', 'blk1.fc1.out', 'x.0',
]


def mk_tensor_config(d, spelling):
  from ai_edge_quantizer import qtyping
  if d is None:
    return None
  kw = dict(d)
  if spelling == 'enum':
    kw['granularity'] = qtyping.QuantGranularity(kw['granularity'])
    kw['dtype'] = qtyping.TensorDataType(kw['dtype'])
  return qtyping.TensorQuantizationConfig(**kw)


def mk_config(name_or_desc, spelling='enum'):
  """-> OpQuantizationConfig | None. May raise ValueError (invalid combination)."""
  from ai_edge_quantizer import qtyping
  d = CONFIGS[name_or_desc] if isinstance(name_or_desc, str) else name_or_desc
  if d is None:
    return None
  cp = d['compute_precision']
  if spelling == 'enum':
    cp = qtyping.ComputePrecision(cp)
  return qtyping.OpQuantizationConfig(
      activation_tensor_config=mk_tensor_config(d.get('activation_tensor_config'), spelling),
      weight_tensor_config=mk_tensor_config(d.get('weight_tensor_config'), spelling),
      compute_precision=cp,
      explicit_dequantize=d['explicit_dequantize'],
      skip_checks=d['skip_checks'],
  )


def mk_algo(name, spelling='enum'):
  from ai_edge_quantizer import algorithm_manager
  if spelling == 'enum' and name not in (BOGUS, BOGUS_UPPER):
    return algorithm_manager.AlgorithmName(name)
  return name


def mk_op(name, spelling='enum'):
  from ai_edge_quantizer import qtyping
  if spelling == 'enum':
    return qtyping.TFLOperationName(name)
  return name


def rule_dict(regex, op, cfg_name, algo):
  """A rule as it would appear in a recipe list (JSON form)."""
  d = CONFIGS[cfg_name] if isinstance(cfg_name, str) else cfg_name
  if d is None:
    d = CONFIGS['default']
  out = {'regex': regex, 'operation': op, 'algorithm_key': algo, 'op_config': _strip(d)}
  if algo == NOQ and cfg_name == 'none':
    # hand-written style (as in recipes/sample_advanced_usage_recipe.json): a no_quantize entry
    # that carries no op_config at all
    del out['op_config']
  return out


def _strip(d):
  import copy
  return copy.deepcopy(d)
