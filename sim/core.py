"""Core helpers shared by orchestrator and children: seeds, digests, framing.

Nothing in this file imports the library under test.
"""
import collections.abc
import dataclasses
import enum
import hashlib
import json
import os
import pickle
import random
import struct

try:
  import numpy as np
except Exception:  # orchestrator may run without numpy
  np = None

GUARD = 'AI_EDGE_QUANTIZER_VERIF'
N_HASH_CLASSES = 4


def derive_seed(*parts) -> int:
  """sha256("aeq-sim" | parts...)[:8] as an unsigned integer."""
  h = hashlib.sha256()
  h.update(b'aeq-sim')
  for p in parts:
    h.update(b'\x1f')
    h.update(str(p).encode())
  return int.from_bytes(h.digest()[:8], 'big')


def run_seed(verif_seed: int, prop: str, run_index: int) -> int:
  return derive_seed(verif_seed, prop, run_index)


def hash_seeds_for(verif_seed: int):
  """The N_HASH_CLASSES PYTHONHASHSEED values used by the zygotes of a check."""
  out = []
  for k in range(N_HASH_CLASSES):
    out.append(1 + derive_seed('hashseed', verif_seed, k) % 4000000000)
  return out


def classes_for_run(rseed: int):
  """(sut class, ref class): a pure function of the run seed; always different."""
  s = rseed % N_HASH_CLASSES
  r = (s + 1 + (rseed // N_HASH_CLASSES) % (N_HASH_CLASSES - 1)) % N_HASH_CLASSES
  return s, r


def rng_for(rseed: int, stream: str) -> random.Random:
  """Independent, named PRNG stream derived from the one run seed."""
  return random.Random(derive_seed('stream', rseed, stream))


# --------------------------------------------------------------------------
# canonical digest


def _enc(h, v):
  if v is None:
    h.update(b'N')
  elif isinstance(v, bool):
    h.update(b'B1' if v else b'B0')
  elif isinstance(v, enum.Enum):
    # str-enums by value: 'INT' and TensorDataType.INT are the same JSON.
    _enc(h, v.value)
  elif isinstance(v, int):
    h.update(b'I' + str(v).encode() + b';')
  elif isinstance(v, float):
    h.update(b'F' + struct.pack('<d', v))
  elif isinstance(v, str):
    b = v.encode('utf-8', 'surrogatepass')
    h.update(b'S' + str(len(b)).encode() + b':' + b)
  elif isinstance(v, (bytes, bytearray, memoryview)):
    b = bytes(v)
    h.update(b'Y' + str(len(b)).encode() + b':' + b)
  elif np is not None and isinstance(v, np.ndarray):
    a = np.ascontiguousarray(v)
    h.update(b'A' + a.dtype.str.encode() + b'|' + repr(tuple(a.shape)).encode() + b'|')
    h.update(a.tobytes())
  elif np is not None and isinstance(v, np.generic):
    _enc(h, np.asarray(v))
  elif isinstance(v, collections.abc.Mapping):   # dict, MappingProxyType, ...
    h.update(b'D' + str(len(v)).encode() + b'{')
    items = []
    for k, x in v.items():
      hk = hashlib.sha256()
      _enc(hk, k)
      items.append((hk.digest(), k, x))
    items.sort(key=lambda t: t[0])
    for _, k, x in items:
      _enc(h, k)
      _enc(h, x)
    h.update(b'}')
  elif isinstance(v, (list, tuple)):
    h.update(b'L' + str(len(v)).encode() + b'[')
    for x in v:
      _enc(h, x)
    h.update(b']')
  elif isinstance(v, (set, frozenset)):
    ds = []
    for x in v:
      hx = hashlib.sha256()
      _enc(hx, x)
      ds.append(hx.digest())
    h.update(b'T' + str(len(ds)).encode())
    for d in sorted(ds):
      h.update(d)
  elif dataclasses.is_dataclass(v) and not isinstance(v, type):
    h.update(b'C' + type(v).__name__.encode() + b'(')
    for f in dataclasses.fields(v):
      _enc(h, f.name)
      _enc(h, getattr(v, f.name))
    h.update(b')')
  else:
    raise TypeError('digest: unsupported type %r' % type(v))


def digest(v) -> str:
  h = hashlib.sha256()
  _enc(h, v)
  return h.hexdigest()[:24]


def sha(b) -> str:
  return hashlib.sha256(bytes(b)).hexdigest()[:24]


def jcanon(v):
  """JSON-able canonical form (enum -> value, tuple -> list)."""
  if isinstance(v, enum.Enum):
    return v.value
  if isinstance(v, collections.abc.Mapping):
    return {str(jcanon(k)): jcanon(x) for k, x in v.items()}
  if isinstance(v, (list, tuple)):
    return [jcanon(x) for x in v]
  if dataclasses.is_dataclass(v) and not isinstance(v, type):
    return {f.name: jcanon(getattr(v, f.name)) for f in dataclasses.fields(v)}
  if np is not None and isinstance(v, np.generic):
    return v.item()
  return v


# --------------------------------------------------------------------------
# framing on pipes: 4-byte big endian length + pickle


def write_frame(fd, obj):
  data = pickle.dumps(obj, protocol=4)
  buf = struct.pack('>I', len(data)) + data
  mv = memoryview(buf)
  while mv:
    n = os.write(fd, mv)
    mv = mv[n:]


def read_exact(fd, n):
  chunks = []
  while n:
    b = os.read(fd, min(n, 1 << 20))
    if not b:
      return None
    chunks.append(b)
    n -= len(b)
  return b''.join(chunks)


def read_frame(fd):
  hdr = read_exact(fd, 4)
  if hdr is None:
    return None
  (n,) = struct.unpack('>I', hdr)
  data = read_exact(fd, n)
  if data is None:
    return None
  return pickle.loads(data)


class FrameBuffer:
  """Incremental frame parser for non-blocking reads."""

  def __init__(self):
    self.buf = bytearray()

  def feed(self, data):
    self.buf += data
    out = []
    while True:
      if len(self.buf) < 4:
        break
      (n,) = struct.unpack('>I', bytes(self.buf[:4]))
      if len(self.buf) < 4 + n:
        break
      out.append(pickle.loads(bytes(self.buf[4:4 + n])))
      del self.buf[:4 + n]
    return out


def dumps_json(obj) -> str:
  return json.dumps(obj, sort_keys=True, indent=1, default=str)
