"""Child-side recorder: event log, violations, obligations, fault/probe counters."""
import collections
import os
import shutil
import tempfile

from sim import core


class SimulatedIOError(IOError):
  """Raised by fault-injecting streams (a data-pipeline I/O error)."""


class Recorder:

  def __init__(self, doc):
    self.doc = doc
    self.prop = doc['property']
    self.log = []           # per step: [step, op kind, outcome class, digest-ish...]
    self.violations = []    # dict(cls, step, detail)
    self.obligations = []   # dict(oid, cls, step, payload, expect, detail)
    self.faults = collections.Counter()
    self.probes = collections.Counter()
    self.states = []
    self.sig = []
    self.steps = 0
    self.nontrivial = False
    self._scratch = None

  def event(self, step, kind, outcome, *extra):
    self.log.append([step, kind, outcome] + [str(e) for e in extra])
    self.sig.append('%s:%s' % (kind, outcome))
    self.steps += 1

  def violate(self, cls, step, detail=''):
    self.violations.append({'cls': cls, 'step': step, 'detail': str(detail)[:600]})

  def oblige(self, cls, step, payload, expect, detail=''):
    self.obligations.append({'oid': len(self.obligations), 'cls': cls, 'step': step,
                             'payload': payload, 'expect': expect,
                             'detail': str(detail)[:300]})

  def fault(self, kind, n=1):
    self.faults[kind] += n

  def probe(self, name, n=1):
    self.probes[name] += n

  def state(self, *vals):
    self.states.append(core.digest(list(vals))[:12])

  def scratch(self):
    if self._scratch is None:
      root = os.environ.get('AEQ_SCRATCH') or tempfile.gettempdir()
      self._scratch = tempfile.mkdtemp(prefix='run-', dir=root)
    return self._scratch

  def cleanup(self):
    if self._scratch is not None:
      shutil.rmtree(self._scratch, ignore_errors=True)
      self._scratch = None

  def result(self):
    self.cleanup()
    return {
        'log': self.log,
        'log_digest': core.digest(self.log),
        'violations': self.violations,
        'obligations': self.obligations,
        'faults': dict(self.faults),
        'probes': dict(self.probes),
        'states': self.states,
        'sig': core.digest(self.sig)[:16],
        'steps': self.steps,
        'nontrivial': self.nontrivial,
    }


def exc_class(e):
  return type(e).__name__


class FaultyStream:
  """Iterable over samples that fails instead of yielding sample `fail_at`.

  container: 'list' (re-iterable list; no failure possible unless fail_at set, in
  which case a re-iterable custom object is used), 'gen' (one-shot generator),
  'iter' (one-shot custom iterator).
  """

  def __init__(self, samples, fail_at=None, container='iter'):
    self.samples = samples
    self.fail_at = fail_at
    self.container = container
    self.yielded = 0
    self.iterations = 0
    self.raised = False        # the injected failure has fired (whatever the library made of it)
    self._it = None

  def _gen(self):
    for k, s in enumerate(self.samples):
      if self.fail_at is not None and k == self.fail_at:
        self.raised = True
        raise SimulatedIOError('simulated stream failure before sample %d' % k)
      self.yielded += 1
      yield s
    if self.fail_at is not None and self.fail_at >= len(self.samples):
      self.raised = True
      raise SimulatedIOError('simulated stream failure after the last sample')

  def _reusing(self):
    """A streaming loader that refills ONE preallocated sample (same dict, same arrays) in place."""
    import numpy as np
    buf = None
    for s in self._gen():
      if buf is None:
        buf = {k: np.array(v, copy=True) for k, v in s.items()}
      else:
        for k, v in s.items():
          np.copyto(buf[k], v)
      yield buf

  def __iter__(self):
    self.iterations += 1
    if self.container == 'reuse':
      if self._it is None:
        self._it = self._reusing()
      return self._it
    if self.container in ('gen', 'iter'):
      if self._it is None:
        self._it = self._gen()
      return self._it          # one-shot: a second iteration yields nothing
    return self._gen()         # 're': re-iterable


def make_stream(samples, fail_at, container):
  if container == 'list' and fail_at is None:
    return list(samples), None
  if container == 'tuple' and fail_at is None:
    return tuple(samples), None
  if container == 'tuple':
    container = 'iter'
  if container == 'reuse':
    fs = FaultyStream(samples, fail_at, 'reuse')
    return fs, fs
  fs = FaultyStream(samples, fail_at, 'iter' if container == 'list' else container)
  return fs, fs


def recipe_manager_of(q):
  """The RecipeManager behind a Quantizer, found by type (survives attribute renames)."""
  from ai_edge_quantizer import recipe_manager
  rm = getattr(q, '_recipe_manager', None)
  if isinstance(rm, recipe_manager.RecipeManager):
    return rm
  for v in vars(q).values():
    if isinstance(v, recipe_manager.RecipeManager):
      return v
  raise AttributeError('no RecipeManager found on Quantizer')
