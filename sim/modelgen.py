"""Seeded generator of float TFLite models in converter normal form.

A model is a pure function of its description {"kind":"gen","seed":s,"max_ops":n}
(or {"kind":"corpus","name":...}): the description is what goes into replay files.
Built with the flatbuffer object API; no TF converter involved.
"""
import os
import random

import numpy as np

from ai_edge_litert import schema_py_generated as sch
from tensorflow.lite.tools import flatbuffer_utils

BO = sch.BuiltinOperator
OPT = sch.BuiltinOptions
F32, I32 = sch.TensorType.FLOAT32, sch.TensorType.INT32

CORPUS_DIR = os.path.join(os.environ.get('AEQ_REPO', '/repo'),
                          'ai_edge_quantizer', 'tests', 'models')
# single-signature float fixtures that calibrate/quantize through the public API
CORPUS = (
    'single_fc', 'single_fc_bias', 'single_fc_no_bias', 'single_add',
    'single_mul', 'single_sub', 'single_mean', 'single_gelu', 'single_tanh',
    'single_transpose', 'single_split', 'single_strided_slice',
    'single_fc_bias_logistic', 'single_fc_bias_relu', 'two_inputs_concatenation',
    'conv_fc_mnist', 'single_depthwise_conv2d_bias', 'embedding_lookup', 'bmm',
    'single_conv2d_transpose_bias', 'single_rsqrt', 'branching_conv_fc',
)

# fixtures that make the library refuse (already quantized / duplicate tensor names): the refusal
# must be as history-independent as a result
ERROR_CORPUS = ('mnist_quantized', 'conv_fc_mnist_srq_a8w8', 'duplicated_tensor_names',
                'single_fc_bias_sub_channel_weight_only_sym_weight')

PREFIXES = ('', 'blk0/', 'blk1/', 'enc/', 'dec/l0/', 'head;', 'model/layer_1/')

# operator name as the quantizer knows it (qtyping.TFLOperationName values)
QNAME = {
    'FULLY_CONNECTED': 'FULLY_CONNECTED', 'CONV_2D': 'CONV_2D',
    'DEPTHWISE_CONV_2D': 'DEPTHWISE_CONV_2D', 'AVERAGE_POOL_2D': 'AVERAGE_POOL_2D',
    'RESHAPE': 'RESHAPE', 'TRANSPOSE': 'TRANSPOSE', 'SPLIT': 'SPLIT',
    'STRIDED_SLICE': 'STRIDED_SLICE', 'CONCATENATION': 'CONCATENATION',
    'SOFTMAX': 'SOFTMAX', 'LOGISTIC': 'LOGISTIC', 'TANH': 'TANH', 'GELU': 'GELU',
    'ADD': 'ADD', 'SUB': 'SUB', 'MUL': 'MUL', 'MEAN': 'MEAN',
    'EMBEDDING_LOOKUP': 'EMBEDDING_LOOKUP', 'BATCH_MATMUL': 'BATCH_MATMUL',
    'ABS': None, 'RNN': None,
}

SAME_SCALE = ('RESHAPE', 'TRANSPOSE', 'SPLIT', 'STRIDED_SLICE', 'AVERAGE_POOL_2D',
              'CONCATENATION')
FIXED_RANGE = ('SOFTMAX', 'LOGISTIC', 'TANH')


class Spec:
  """Abstract model: tensors, ops, inputs, outputs (all JSON-able except data)."""

  def __init__(self):
    self.tensors = []   # dict(name, shape, dtype('f'|'i'), data(np|None), idrange)
    self.ops = []       # dict(type, inputs[idx], outputs[idx], opts{})
    self.inputs = []
    self.outputs = []
    self.sig_in = []    # signature argument names, parallel to inputs
    self.sig_out = []

  def op_types(self):
    return [o['type'] for o in self.ops]

  def qnames_present(self):
    s = []
    for o in self.ops:
      q = QNAME.get(o['type'])
      if q and q not in s:
        s.append(q)
    return s

  def scopes(self):
    """Output tensor names per op (what a regex is matched against)."""
    return [[self.tensors[i]['name'] for i in o['outputs']] for o in self.ops]

  def tensor_names(self):
    return [t['name'] for t in self.tensors]


class _Gen:

  def __init__(self, seed, max_ops, bias=None):
    self.r = random.Random(seed)
    self.nr = np.random.default_rng(seed % (2**32))
    self.s = Spec()
    self.max_ops = max_ops
    self.n = 0
    self.bias = bias or {}
    self.consumed = set()
    self.last_const = None

  # ---- tensors
  def act(self, name, shape, dtype='f', idrange=None):
    self.s.tensors.append(dict(name=name, shape=list(shape), dtype=dtype, data=None,
                               idrange=idrange))
    return len(self.s.tensors) - 1

  def const(self, name, arr):
    arr = np.asarray(arr)
    dt = 'f' if arr.dtype == np.float32 else 'i'
    self.s.tensors.append(dict(name=name, shape=list(arr.shape), dtype=dt, data=arr,
                               idrange=None))
    return len(self.s.tensors) - 1

  def fconst(self, name, shape):
    style = self.r.random()
    scale = self.r.choice([0.05, 0.3, 1.0, 2.5])
    a = self.nr.normal(0, scale, size=shape).astype(np.float32)
    if style < 0.1:
      a = np.abs(a)
    elif style < 0.15:
      a = np.full(shape, scale, dtype=np.float32)
    return self.const(name, a)

  def shape(self, i):
    return self.s.tensors[i]['shape']

  def oname(self, kind):
    self.n += 1
    p = self.r.choice(PREFIXES)
    suffix = self.r.choice(['', '', ':0', '/out', ';1'])
    return '%s%s_%d%s' % (p, kind.lower(), self.n, suffix)

  def op(self, typ, ins, outs, **opts):
    self.s.ops.append(dict(type=typ, inputs=list(ins), outputs=list(outs), opts=opts))
    for i in ins:
      if i >= 0:
        self.consumed.add(i)

  # ---- op makers: each takes an available activation index, returns new outputs
  def mk_fc(self, x):
    sh = self.shape(x)
    f = sh[-1]
    o = self.r.choice([1, 2, 3, 5, 8])
    nm = self.oname('fc')
    w = self.fconst(nm + '/w', (o, f))
    b = self.fconst(nm + '/b', (o,)) if self.r.random() < 0.65 else -1
    y = self.act(nm, sh[:-1] + [o])
    self.op('FULLY_CONNECTED', [x, w, b], [y], keep=len(sh) > 2,
            act=self.r.choice([0, 0, 1]))
    return [y]

  def mk_rnn(self, x):
    """Builtin RNN cell: its hidden state is a VARIABLE tensor, so the interpreter carries state
    from one invocation to the next unless it is reset. Unknown to the quantizer (left float)."""
    b, f = self.shape(x)
    u = self.r.choice([2, 3, 4])
    nm = self.oname('rnn')
    w = self.fconst(nm + '/w', (u, f))
    rw = self.fconst(nm + '/rw', (u, u))
    bias = self.fconst(nm + '/b', (u,))
    self.s.tensors.append(dict(name=nm + '/state', shape=[b, u], dtype='f', data=None, idrange=None,
                               variable=True))
    state = len(self.s.tensors) - 1
    y = self.act(nm, [b, u])
    self.op('RNN', [x, w, rw, bias, state], [y])
    return [y]

  def mk_conv(self, x):
    n, h, w_, c = self.shape(x)
    k = self.r.choice([1, 2, 3])
    k = min(k, h, w_)
    o = self.r.choice([1, 2, 3, 4])
    same = self.r.random() < 0.5
    nm = self.oname('conv')
    w = self.fconst(nm + '/w', (o, k, k, c))
    b = self.fconst(nm + '/b', (o,))
    oh, ow = (h, w_) if same else (h - k + 1, w_ - k + 1)
    y = self.act(nm, [n, oh, ow, o])
    self.op('CONV_2D', [x, w, b], [y], same=same, act=self.r.choice([0, 0, 1]))
    return [y]

  def mk_dw(self, x):
    n, h, w_, c = self.shape(x)
    k = min(self.r.choice([1, 2, 3]), h, w_)
    same = self.r.random() < 0.5
    nm = self.oname('dwconv')
    w = self.fconst(nm + '/w', (1, k, k, c))
    b = self.fconst(nm + '/b', (c,))
    oh, ow = (h, w_) if same else (h - k + 1, w_ - k + 1)
    y = self.act(nm, [n, oh, ow, c])
    self.op('DEPTHWISE_CONV_2D', [x, w, b], [y], same=same)
    return [y]

  def mk_pool(self, x):
    n, h, w_, c = self.shape(x)
    k = 2
    st = self.r.choice([1, 2])
    oh, ow = (h - k) // st + 1, (w_ - k) // st + 1
    y = self.act(self.oname('avgpool'), [n, oh, ow, c])
    self.op('AVERAGE_POOL_2D', [x], [y], k=k, st=st)
    return [y]

  def mk_reshape(self, x):
    sh = self.shape(x)
    tot = int(np.prod(sh))
    cands = [[sh[0], tot // sh[0]], [1, tot], [tot]]
    if len(sh) == 2 and sh[1] % 2 == 0:
      cands.append([sh[0], 2, sh[1] // 2])
    new = self.r.choice([c for c in cands if c != sh] or [[tot]])
    nm = self.oname('reshape')
    shp = self.const(nm + '/shape', np.array(new, dtype=np.int32))
    y = self.act(nm, new)
    self.op('RESHAPE', [x, shp], [y], new=new)
    return [y]

  def mk_transpose(self, x):
    sh = self.shape(x)
    perm = list(range(len(sh)))
    if len(sh) >= 2:
      perm[-1], perm[-2] = perm[-2], perm[-1]
    nm = self.oname('transpose')
    p = self.const(nm + '/perm', np.array(perm, dtype=np.int32))
    y = self.act(nm, [sh[i] for i in perm])
    self.op('TRANSPOSE', [x, p], [y])
    return [y]

  def mk_split(self, x):
    sh = self.shape(x)
    axes = [a for a in range(len(sh)) if sh[a] % 2 == 0 and sh[a] >= 2]
    a = self.r.choice(axes)
    nm = self.oname('split')
    d = self.const(nm + '/dim', np.array(a, dtype=np.int32))
    osh = list(sh)
    osh[a] //= 2
    y0 = self.act(nm, osh)
    y1 = self.act(nm + '_1', osh)
    self.op('SPLIT', [d, x], [y0, y1], n=2)
    return [y0, y1]

  def mk_slice(self, x):
    sh = self.shape(x)
    a = len(sh) - 1
    lo = 0 if sh[a] < 2 else self.r.choice([0, 1])
    hi = sh[a] if sh[a] < 3 else self.r.choice([sh[a], sh[a] - 1])
    if hi <= lo:
      lo, hi = 0, sh[a]
    begin = [0] * len(sh)
    end = list(sh)
    begin[a], end[a] = lo, hi
    nm = self.oname('strided_slice')
    b = self.const(nm + '/begin', np.array(begin, dtype=np.int32))
    e = self.const(nm + '/end', np.array(end, dtype=np.int32))
    s = self.const(nm + '/strides', np.array([1] * len(sh), dtype=np.int32))
    osh = list(sh)
    osh[a] = hi - lo
    y = self.act(nm, osh)
    self.op('STRIDED_SLICE', [x, b, e, s], [y])
    return [y]

  def mk_concat(self, x, y_):
    sh = self.shape(x)
    a = len(sh) - 1
    osh = list(sh)
    osh[a] = sh[a] + self.shape(y_)[a]
    y = self.act(self.oname('concat'), osh)
    self.op('CONCATENATION', [x, y_], [y], axis=a)
    return [y]

  def mk_unary(self, typ, x):
    y = self.act(self.oname(typ), self.shape(x))
    self.op(typ, [x], [y])
    return [y]

  def mk_binary(self, typ, x, other=None, tied=False):
    sh = self.shape(x)
    nm = self.oname(typ)
    if other is None:
      csh = sh if self.r.random() < 0.6 else [sh[-1]]
      other = self.fconst(nm + '/c', tuple(csh))
      if list(csh) == list(sh):
        self.last_const = (typ, other)   # may be consumed again by a later op (tied constant)
    ins = [x, other] if self.r.random() < 0.8 else [other, x]
    if self.s.tensors[other]['data'] is not None:
      ins = [x, other]
    y = self.act(nm, sh)
    self.op(typ, ins, [y])
    return [y]

  def mk_mean(self, x):
    sh = self.shape(x)
    if len(sh) == 4:
      axes, keep = [1, 2], self.r.random() < 0.5
    else:
      axes, keep = [len(sh) - 1], True
    nm = self.oname('mean')
    ax = self.const(nm + '/axis', np.array(axes, dtype=np.int32))
    osh = [1 if i in axes else d for i, d in enumerate(sh)] if keep else \
        [d for i, d in enumerate(sh) if i not in axes]
    y = self.act(nm, osh)
    self.op('MEAN', [x, ax], [y], keep=keep)
    return [y]

  def mk_bmm(self, x, y_=None):
    b, t, f = self.shape(x)
    o = self.r.choice([1, 2, 3, 4])
    nm = self.oname('bmm')
    adj_y = False
    if y_ is None:
      adj_y = self.r.random() < 0.3
      y_ = self.fconst(nm + '/rhs', (b, o, f) if adj_y else (b, f, o))
    else:
      o = self.shape(y_)[2]
    y = self.act(nm, [b, t, o])
    self.op('BATCH_MATMUL', [x, y_], [y], adj_y=adj_y)
    return [y]

  def mk_embedding(self):
    v, d = self.r.choice([4, 7, 10]), self.r.choice([2, 3, 4, 6])
    n = self.r.choice([1, 2, 3])
    self.n += 1
    ids = self.act('ids_%d' % self.n, [n], dtype='i', idrange=v)
    nm = self.oname('embedding')
    tab = self.fconst(nm + '/table', (v, d))
    y = self.act(nm, [n, d])
    self.op('EMBEDDING_LOOKUP', [ids, tab], [y])
    self.s.inputs.append(ids)
    return [y]

  # ---- driver
  def run(self):
    r = self.r
    family = r.choice(['2d', '2d', '4d', '4d', '3d', 'emb'])
    avail = []
    if family == 'emb':
      avail += self.mk_embedding()
    else:
      if family == '2d':
        sh = [r.choice([1, 2]), r.choice([2, 3, 4, 6, 8, 12])]
      elif family == '4d':
        sh = [1, r.choice([3, 4, 5, 6]), r.choice([3, 4, 6]), r.choice([1, 2, 3, 4])]
      else:
        sh = [r.choice([1, 2]), r.choice([2, 3, 4]), r.choice([2, 3, 4, 6])]
      inp_names = ['serving_default_x:0', 'input_1', 'x', 'serving_default_input_2:0']
      x = self.act(r.choice(inp_names), sh)
      self.s.inputs.append(x)
      avail.append(x)
      if r.random() < 0.25:
        x2 = self.act('serving_default_y:0', sh)
        self.s.inputs.append(x2)
        avail.append(x2)
    n_ops = r.randint(1, self.max_ops)
    tries = 0
    while len(self.s.ops) < n_ops and tries < 60:
      tries += 1
      # prefer fresh tensors; sometimes reuse a consumed one (multi-consumer)
      fresh = [t for t in avail if t not in self.consumed]
      x = r.choice(fresh) if fresh and r.random() < 0.8 else r.choice(avail)
      sh = self.shape(x)
      rank = len(sh)
      cands = []
      w = self.bias.get
      if rank >= 2:
        cands += [('fc', 3.0)]
      if rank == 2 and self.s.tensors[x]['dtype'] == 'f':
        cands += [('rnn', 0.35)]
      if rank == 4 and sh[1] >= 1:
        cands += [('conv', 2.0), ('dw', 1.0), ('mean', 0.7)]
        if sh[1] >= 2 and sh[2] >= 2:
          cands += [('pool', 2.0)]
      if rank == 3:
        cands += [('bmm', 1.5)]
      if rank in (2, 3):
        cands += [('mean', 0.5)]
      cands += [('reshape', 2.0), ('transpose', 1.2), ('slice', 1.0),
                ('softmax', 1.0), ('logistic', 1.0), ('tanh', 1.0), ('gelu', 0.6),
                ('add', 1.0), ('sub', 0.6), ('mul', 0.8), ('abs', 0.35)]
      if any(d % 2 == 0 and d >= 2 for d in sh):
        cands += [('split', 1.0)]
      mates = [t for t in avail if t != x and self.shape(t) == sh
               and self.s.tensors[t]['dtype'] == 'f']
      if mates:
        cands += [('concat', 2.0), ('add2', 1.2), ('mul2', 0.6), ('sub2', 0.5)]
      if self.s.tensors[x]['dtype'] == 'f':
        cands += [('square', 0.35), ('selfconcat', 0.2)]
      if self.last_const is not None and self.shape(self.last_const[1]) == sh:
        cands += [('tiedconst', 1.2)]
      if rank == 3:
        m3 = [t for t in avail if t != x and len(self.shape(t)) == 3
              and self.shape(t)[0] == sh[0] and self.shape(t)[1] == sh[2]]
        if m3:
          cands += [('bmm2', 1.0)]
      kinds = [c for c, _ in cands]
      weights = [wt * w(c, 1.0) for c, wt in cands]
      k = r.choices(kinds, weights)[0]
      if k == 'fc': new = self.mk_fc(x)
      elif k == 'rnn': new = self.mk_rnn(x)
      elif k == 'conv': new = self.mk_conv(x)
      elif k == 'dw': new = self.mk_dw(x)
      elif k == 'pool': new = self.mk_pool(x)
      elif k == 'reshape': new = self.mk_reshape(x)
      elif k == 'transpose': new = self.mk_transpose(x)
      elif k == 'split': new = self.mk_split(x)
      elif k == 'slice': new = self.mk_slice(x)
      elif k == 'concat': new = self.mk_concat(x, r.choice(mates))
      elif k == 'softmax': new = self.mk_unary('SOFTMAX', x)
      elif k == 'logistic': new = self.mk_unary('LOGISTIC', x)
      elif k == 'tanh': new = self.mk_unary('TANH', x)
      elif k == 'gelu': new = self.mk_unary('GELU', x)
      elif k == 'abs': new = self.mk_unary('ABS', x)
      elif k == 'add': new = self.mk_binary('ADD', x)
      elif k == 'sub': new = self.mk_binary('SUB', x)
      elif k == 'mul': new = self.mk_binary('MUL', x)
      elif k == 'add2': new = self.mk_binary('ADD', x, r.choice(mates))
      elif k == 'sub2': new = self.mk_binary('SUB', x, r.choice(mates))
      elif k == 'mul2': new = self.mk_binary('MUL', x, r.choice(mates))
      elif k == 'square': new = self.mk_binary(r.choice(['MUL', 'ADD']), x, x)
      elif k == 'selfconcat': new = self.mk_concat(x, x)
      elif k == 'tiedconst': new = self.mk_binary(self.last_const[0], x, self.last_const[1], tied=True)
      elif k == 'mean': new = self.mk_mean(x)
      elif k == 'bmm': new = self.mk_bmm(x)
      elif k == 'bmm2': new = self.mk_bmm(x, r.choice(m3))
      else: raise AssertionError(k)
      avail += new
    s = self.s
    produced = [i for o in s.ops for i in o['outputs']]
    outs = [i for i in produced if i not in self.consumed]
    # sometimes also export an intermediate that is consumed
    inter = [i for i in produced if i in self.consumed]
    if inter and r.random() < 0.25:
      outs.append(r.choice(inter))
    if not outs:
      outs = [produced[-1]]
    s.outputs = outs
    s.sig_in = ['arg%d' % k for k in range(len(s.inputs))] if r.random() < 0.5 else \
        [s.tensors[i]['name'].split(':')[0].replace('serving_default_', '') for i in s.inputs]
    s.sig_out = ['output_%d' % k for k in range(len(outs))]
    return s


def _opts(o):
  t, k = o['type'], o['opts']
  if t == 'FULLY_CONNECTED':
    x = sch.FullyConnectedOptionsT()
    x.keepNumDims = bool(k.get('keep'))
    x.fusedActivationFunction = k.get('act', 0)
    return OPT.FullyConnectedOptions, x
  if t == 'CONV_2D':
    x = sch.Conv2DOptionsT()
    x.padding = sch.Padding.SAME if k['same'] else sch.Padding.VALID
    x.strideH = x.strideW = 1
    x.dilationHFactor = x.dilationWFactor = 1
    x.fusedActivationFunction = k.get('act', 0)
    return OPT.Conv2DOptions, x
  if t == 'DEPTHWISE_CONV_2D':
    x = sch.DepthwiseConv2DOptionsT()
    x.padding = sch.Padding.SAME if k['same'] else sch.Padding.VALID
    x.strideH = x.strideW = 1
    x.dilationHFactor = x.dilationWFactor = 1
    x.depthMultiplier = 1
    return OPT.DepthwiseConv2DOptions, x
  if t == 'AVERAGE_POOL_2D':
    x = sch.Pool2DOptionsT()
    x.padding = sch.Padding.VALID
    x.strideH = x.strideW = k['st']
    x.filterHeight = x.filterWidth = k['k']
    return OPT.Pool2DOptions, x
  if t == 'RESHAPE':
    x = sch.ReshapeOptionsT()
    x.newShape = np.array(k['new'], dtype=np.int32)
    return OPT.ReshapeOptions, x
  if t == 'TRANSPOSE':
    return OPT.TransposeOptions, sch.TransposeOptionsT()
  if t == 'SPLIT':
    x = sch.SplitOptionsT()
    x.numSplits = k['n']
    return OPT.SplitOptions, x
  if t == 'STRIDED_SLICE':
    return OPT.StridedSliceOptions, sch.StridedSliceOptionsT()
  if t == 'CONCATENATION':
    x = sch.ConcatenationOptionsT()
    x.axis = k['axis']
    return OPT.ConcatenationOptions, x
  if t == 'SOFTMAX':
    x = sch.SoftmaxOptionsT()
    x.beta = 1.0
    return OPT.SoftmaxOptions, x
  if t == 'GELU':
    return OPT.GeluOptions, sch.GeluOptionsT()
  if t == 'ADD':
    return OPT.AddOptions, sch.AddOptionsT()
  if t == 'SUB':
    return OPT.SubOptions, sch.SubOptionsT()
  if t == 'MUL':
    return OPT.MulOptions, sch.MulOptionsT()
  if t == 'MEAN':
    x = sch.ReducerOptionsT()
    x.keepDims = bool(k['keep'])
    return OPT.ReducerOptions, x
  if t == 'RNN':
    x = sch.RNNOptionsT()
    x.fusedActivationFunction = sch.ActivationFunctionType.TANH
    return OPT.RNNOptions, x
  if t == 'BATCH_MATMUL':
    x = sch.BatchMatMulOptionsT()
    x.adjX = False
    x.adjY = bool(k.get('adj_y'))
    return OPT.BatchMatMulOptions, x
  return 0, None


def _add_subgraph(m, codes, code_idx, spec, name):
  sg = sch.SubGraphT()
  sg.name = name
  sg.tensors = []
  for t in spec.tensors:
    ft = sch.TensorT()
    ft.name = t['name'].encode()
    ft.shape = np.array(t['shape'], dtype=np.int32)
    ft.type = F32 if t['dtype'] == 'f' else I32
    if t.get('variable'):
      ft.isVariable = True
    b = sch.BufferT()
    if t['data'] is not None:
      b.data = np.frombuffer(np.ascontiguousarray(t['data']).tobytes(), dtype=np.uint8)
    m.buffers.append(b)
    ft.buffer = len(m.buffers) - 1
    sg.tensors.append(ft)
  sg.operators = []
  for o in spec.ops:
    code = getattr(BO, o['type'])
    if code not in code_idx:
      oc = sch.OperatorCodeT()
      oc.builtinCode = code
      oc.deprecatedBuiltinCode = min(code, 127)
      oc.version = 1
      code_idx[code] = len(codes)
      codes.append(oc)
    fo = sch.OperatorT()
    fo.opcodeIndex = code_idx[code]
    fo.inputs = np.array(o['inputs'], dtype=np.int32)
    fo.outputs = np.array(o['outputs'], dtype=np.int32)
    fo.builtinOptionsType, fo.builtinOptions = _opts(o)
    sg.operators.append(fo)
  sg.inputs = np.array(spec.inputs, dtype=np.int32)
  sg.outputs = np.array(spec.outputs, dtype=np.int32)
  return sg


def _signature(spec, key, subgraph_index):
  sd = sch.SignatureDefT()
  sd.signatureKey = key.encode()
  sd.subgraphIndex = subgraph_index
  sd.inputs, sd.outputs = [], []
  for nm, i in zip(spec.sig_in, spec.inputs):
    tm = sch.TensorMapT()
    tm.name = nm.encode()
    tm.tensorIndex = i
    sd.inputs.append(tm)
  for nm, i in zip(spec.sig_out, spec.outputs):
    tm = sch.TensorMapT()
    tm.name = nm.encode()
    tm.tensorIndex = i
    sd.outputs.append(tm)
  return sd


def _add_metadata_buffers(m):
  out = []
  for payload in (b'1.5.0' + b'\0' * 11, bytes(range(1, 41))):
    b = sch.BufferT()
    b.data = np.frombuffer(payload, dtype=np.uint8)
    m.buffers.append(b)
    out.append(len(m.buffers) - 1)
  return out


def build_bytes(spec: Spec, empty_buffer=None, metadata=None) -> bytearray:
  """empty_buffer: None | 'tensor' (an unused zero-element int32 constant whose buffer carries a
  present-but-empty data vector) | 'orphan' (such a buffer referenced by no tensor). Both are
  legal TFLite; the TF converter normally omits the data field instead."""
  m = sch.ModelT()
  m.version = 3
  m.description = 'aeq-sim generated'
  m.buffers = [sch.BufferT()]
  codes, code_idx = [], {}
  meta_bufs = []
  if metadata == 'first':
    meta_bufs = _add_metadata_buffers(m)       # metadata buffers BEFORE the tensor buffers
  sg = _add_subgraph(m, codes, code_idx, spec, 'main')
  if metadata == 'last':
    meta_bufs = _add_metadata_buffers(m)       # where the TF converter puts them
  if meta_bufs:
    m.metadata = []
    for name, idx in zip(('min_runtime_version', 'CONVERSION_METADATA'), meta_bufs):
      md = sch.MetadataT()
      md.name = name.encode()
      md.buffer = idx
      m.metadata.append(md)
  if empty_buffer:
    eb = sch.BufferT()
    eb.data = np.array([], dtype=np.uint8)
    m.buffers.append(eb)
    if empty_buffer == 'tensor':
      et = sch.TensorT()
      et.name = b'aux/empty_const'
      et.shape = np.array([0], dtype=np.int32)
      et.type = I32
      et.buffer = len(m.buffers) - 1
      sg.tensors.append(et)
  m.operatorCodes = codes
  m.subgraphs = [sg]
  m.signatureDefs = [_signature(spec, 'serving_default', 0)]
  return bytearray(flatbuffer_utils.convert_object_to_bytearray(m))


class MultiSpec:
  """A model with several independent subgraphs, one signature each."""
  multi = True

  def __init__(self, specs, sig_keys):
    self.specs, self.sig_keys = specs, sig_keys
    p = specs[0]
    self.tensors, self.ops, self.inputs, self.outputs = p.tensors, p.ops, p.inputs, p.outputs
    self.sig_in, self.sig_out = p.sig_in, p.sig_out

  def op_types(self):
    return [t for sp in self.specs for t in sp.op_types()]

  def qnames_present(self):
    out = []
    for sp in self.specs:
      for q in sp.qnames_present():
        if q not in out:
          out.append(q)
    return out

  def scopes(self):
    return [sc for sp in self.specs for sc in sp.scopes()]

  def tensor_names(self):
    return [n for sp in self.specs for n in sp.tensor_names()]


def build_bytes_multi(ms: MultiSpec) -> bytearray:
  m = sch.ModelT()
  m.version = 3
  m.description = 'aeq-sim generated (multi-signature)'
  m.buffers = [sch.BufferT()]
  codes, code_idx = [], {}
  m.subgraphs, m.signatureDefs = [], []
  for k, (sp, key) in enumerate(zip(ms.specs, ms.sig_keys)):
    m.subgraphs.append(_add_subgraph(m, codes, code_idx, sp, 'main' if k == 0 else 'sub%d' % k))
    m.signatureDefs.append(_signature(sp, key, k))
  m.operatorCodes = codes
  return bytearray(flatbuffer_utils.convert_object_to_bytearray(m))


_CODE_NAME = {v: k for k, v in vars(BO).items() if not k.startswith('_')}


MULTI_CORPUS = ('two_signatures', 'weight_sharing_fcs')


def is_multi(desc):
  return desc['kind'] == 'gen2' or (desc['kind'] == 'corpus' and desc.get('name') in MULTI_CORPUS)


def multispec_from_bytes(buf):
  m = flatbuffer_utils.read_model_from_bytearray(bytearray(buf))
  specs, keys = [], []
  for sd in m.signatureDefs:
    specs.append(spec_from_bytes(buf, sd.subgraphIndex, sd))
    keys.append(sd.signatureKey.decode())
  return MultiSpec(specs, keys)


def spec_from_bytes(buf, subgraph_index=0, signature=None) -> Spec:
  """Abstract description of one subgraph of an existing model (corpus)."""
  m = flatbuffer_utils.read_model_from_bytearray(bytearray(buf))
  sg = m.subgraphs[subgraph_index]
  s = Spec()
  for t in sg.tensors:
    data = m.buffers[t.buffer].data
    is_f = t.type == F32
    arr = None
    if data is not None:
      np_dt = {F32: np.float32, I32: np.int32}.get(t.type)
      if np_dt is not None:
        arr = np.frombuffer(bytes(data), dtype=np_dt).reshape(list(t.shape) if t.shape is not None else [])
      else:
        arr = np.frombuffer(bytes(data), dtype=np.uint8)
    s.tensors.append(dict(name=t.name.decode(), shape=[int(d) for d in (t.shape if t.shape is not None else [])],
                          dtype='f' if is_f else 'i', data=arr, idrange=None))
  for o in sg.operators:
    code = m.operatorCodes[o.opcodeIndex].builtinCode
    typ = _CODE_NAME.get(code, 'OP%d' % code)
    if typ == 'TRANSPOSE_CONV':
      typ = 'CONV_2D_TRANSPOSE'
    opts = {}
    if typ == 'BATCH_MATMUL' and o.builtinOptions is not None:
      opts['adj_y'] = bool(o.builtinOptions.adjY)
    s.ops.append(dict(type=typ, inputs=[int(i) for i in o.inputs],
                      outputs=[int(i) for i in o.outputs], opts=opts))
  s.inputs = [int(i) for i in sg.inputs]
  s.outputs = [int(i) for i in sg.outputs]
  if m.signatureDefs:
    sd = signature if signature is not None else m.signatureDefs[0]
    by_idx = {tm.tensorIndex: tm.name.decode() for tm in sd.inputs}
    s.sig_in = [by_idx.get(i, 'in%d' % k) for k, i in enumerate(s.inputs)]
    by_idx = {tm.tensorIndex: tm.name.decode() for tm in sd.outputs}
    s.sig_out = [by_idx.get(i, 'out%d' % k) for k, i in enumerate(s.outputs)]
  else:
    s.sig_in = [s.tensors[i]['name'] for i in s.inputs]
    s.sig_out = [s.tensors[i]['name'] for i in s.outputs]
  return s


QNAME['CONV_2D_TRANSPOSE'] = 'CONV_2D_TRANSPOSE'
QNAME['RSQRT'] = 'RSQRT'

_CACHE = {}


def get_model(desc):
  """desc -> (Spec, bytearray). Cached per process (pure function of desc)."""
  key = repr(sorted(desc.items()))
  if key in _CACHE:
    spec, b = _CACHE[key]
    return spec, bytearray(b)
  if desc['kind'] == 'gen':
    spec = _Gen(desc['seed'], desc.get('max_ops', 6), desc.get('bias')).run()
    b = build_bytes(spec, desc.get('empty_buffer'), desc.get('metadata'))
  elif desc['kind'] == 'gen2':
    specs = []
    for k in range(2):
      sp = _Gen(desc['seed'] + 7919 * k, desc.get('max_ops', 4), desc.get('bias')).run()
      if k:
        for t in sp.tensors:          # tensor names must be unique across subgraphs
          t['name'] = 'g2/' + t['name']
      specs.append(sp)
    spec = MultiSpec(specs, ['sig_a', 'sig_b'])
    b = build_bytes_multi(spec)
  else:
    with open(os.path.join(CORPUS_DIR, desc['name'] + '.tflite'), 'rb') as f:
      b = bytearray(f.read())
    spec = multispec_from_bytes(b) if desc['name'] in MULTI_CORPUS else spec_from_bytes(b)
  _CACHE[key] = (spec, bytes(b))
  return spec, bytearray(b)


def model_path(desc):
  assert desc['kind'] == 'corpus'
  return os.path.join(CORPUS_DIR, desc['name'] + '.tflite')


def gen_dataset(spec: Spec, ddesc):
  """ddesc = {seed, n, dist, scales} -> list of {signature arg: array}."""
  if getattr(spec, 'multi', False):
    spec = spec.specs[ddesc.get('sig', 0)]
  rng = np.random.default_rng(ddesc['seed'] % (2**32))
  out = []
  for k in range(ddesc['n']):
    sc = ddesc['scales'][k % len(ddesc['scales'])]
    sample = {}
    for nm, i in zip(spec.sig_in, spec.inputs):
      t = spec.tensors[i]
      shape = t['shape']
      if t['dtype'] == 'i':
        hi = t['idrange'] or 4
        sample[nm] = rng.integers(0, hi, size=shape).astype(np.int32)
        continue
      d = ddesc['dist']
      if d == 'normal':
        a = rng.normal(0, sc, size=shape)
      elif d == 'uniform':
        a = rng.uniform(-sc, sc, size=shape)
      elif d == 'onesided':
        a = rng.uniform(0.01 * sc, sc, size=shape)
      elif d == 'relu':
        a = np.maximum(rng.normal(0, sc, size=shape), 0.0)        # exact zeros
      elif d == 'zero_first':
        a = np.zeros(shape) if k == 0 else rng.normal(0, sc, size=shape)
      elif d == 'negative':
        a = -rng.uniform(0.01 * sc, sc, size=shape)
      elif d == 'nonfinite':
        a = rng.normal(0, sc, size=shape)
        flat = a.reshape(-1)
        flat[0] = np.nan
        if flat.size > 1:
          flat[-1] = np.inf if k % 2 == 0 else -np.inf
      else:
        a = np.full(shape, sc * (1 if k % 2 == 0 else -0.5))
      a = a.astype(np.float32)
      form = ddesc.get('form', 'c')
      if form == 'fortran' and a.ndim >= 2:
        a = np.asfortranarray(a)                       # same values, other memory order
      elif form == 'view':
        big = np.zeros(tuple(d + 2 for d in a.shape), dtype=np.float32)
        sl = tuple(slice(1, 1 + d) for d in a.shape)
        big[sl] = a
        a = big[sl]                                    # non-contiguous view into a larger array
      elif form == 'readonly':
        a.setflags(write=False)
      sample[nm] = a
    out.append(sample)
  return out


def draw_dataset_desc(r: random.Random, model_idx, n=None):
  n = n or r.randint(1, 8)
  return dict(model=model_idx, seed=r.randrange(1 << 30), n=n,
              dist=r.choices(['normal', 'uniform', 'onesided', 'const', 'relu', 'zero_first', 'negative'],
                             [10, 6, 4, 2, 2, 1, 1])[0],
              scales=[round(r.uniform(0.05, 8.0), 3) for _ in range(n)],
              form=r.choices(['c', 'fortran', 'view', 'readonly'], [14, 2, 2, 2])[0])
