"""Code that runs inside zygotes and their forked children (imports the library)."""
import importlib
import os

os.environ.setdefault('TF_CPP_MIN_LOG_LEVEL', '3')

PROPS = ('C09', 'C11', 'C12', 'C14', 'C16')


def warm():
  """Import everything a child may need, so forks start from a complete image."""
  import numpy  # noqa
  import ai_edge_quantizer  # noqa
  from ai_edge_quantizer import quantizer, recipe_manager, algorithm_manager  # noqa
  from ai_edge_quantizer import calibrator, params_generator, model_modifier  # noqa
  from ai_edge_quantizer import model_validator, recipe  # noqa
  from ai_edge_quantizer.utils import tfl_interpreter_utils, tfl_flatbuffer_utils  # noqa
  from sim import modelgen, alphabet, refmodel, harness  # noqa
  try:
    from absl import logging as absl_logging
    absl_logging.set_verbosity(absl_logging.ERROR)
  except Exception:  # pylint: disable=broad-except
    pass
  for p in PROPS:
    try:
      importlib.import_module('sim.props.' + p.lower())
    except ModuleNotFoundError:
      pass


def prop_module(prop):
  return importlib.import_module('sim.props.' + prop.lower())


def handle(kind, payload):
  mod = prop_module(payload['prop'])
  if kind == 'run':
    doc = payload.get('doc')
    if doc is None:
      doc = mod.generate(payload['rseed'], payload.get('tier', 'quick'))
    # the library's validate() draws test data from numpy's global generator when given none:
    # that source of nondeterminism belongs to the simulator, so seed it from the run seed
    import random
    import numpy as np
    np.random.seed(int(doc.get('run_seed', 0)) % (2**32))
    random.seed(int(doc.get('run_seed', 0)))
    res = mod.execute(doc)
    res['doc'] = doc
    return res
  if kind == 'ref':
    return mod.reference(payload['ob'])
  raise ValueError(kind)
