"""Fork server ("zygote").

Exec'd by the orchestrator with a fixed PYTHONHASHSEED. Imports the library
under test from /repo once and afterwards only forks: every request is executed
in a child forked from the pristine "module just imported" state, with a wall
cap, and its pickled result is forwarded to the orchestrator.

  stdin  : frames {id, kind, payload, cap}
  fd OUT : frames {id, status, result, wall}   (OUT = dup of the original stdout)

--oneshot: read one request, execute it in *this* freshly exec'd interpreter
(no fork), write one result. Used for replay and for exec-sampled references.
"""
import faulthandler
import os
import select
import signal
import sys
import time
import traceback


def _setup_io():
  out_fd = os.dup(1)
  os.dup2(2, 1)  # anything printed by libraries goes to stderr
  sys.stdout = os.fdopen(1, 'w', buffering=1, closefd=False)
  return out_fd


def _execute(req):
  from sim import child
  try:
    return {'ok': True, 'value': child.handle(req['kind'], req['payload'])}
  except BaseException:  # pylint: disable=broad-except
    return {'ok': False, 'trace': traceback.format_exc()}


def main():
  oneshot = '--oneshot' in sys.argv
  out_fd = _setup_io()
  from sim import core
  t0 = time.time()
  from sim import child  # imports the library under test
  child.warm()
  if oneshot:
    req = core.read_frame(0)
    faulthandler.enable()
    t = time.time()
    res = _execute(req)
    core.write_frame(out_fd, {'id': req['id'], 'status': 'ok' if res['ok'] else 'error',
                              'result': res, 'wall': time.time() - t})
    return
  core.write_frame(out_fd, {'ready': True, 'pid': os.getpid(),
                            'hashseed': os.environ.get('PYTHONHASHSEED'),
                            'import_s': time.time() - t0})
  children = {}  # rfd -> dict(pid, id, buf, t0, cap)
  stdin_open = True
  while stdin_open or children:
    rlist = list(children.keys()) + ([0] if stdin_open else [])
    ready, _, _ = select.select(rlist, [], [], 0.25)
    now = time.time()
    for fd in ready:
      if fd == 0:
        req = core.read_frame(0)
        if req is None or req.get('kind') == 'quit':
          stdin_open = False
          continue
        r, w = os.pipe()
        pid = os.fork()
        if pid == 0:
          # ---- child
          try:
            os.close(r)
            for cfd in list(children.keys()):
              try:
                os.close(cfd)
              except OSError:
                pass
            try:
              os.close(0)
            except OSError:
              pass
            cap = int(req.get('cap', 60))
            faulthandler.enable()
            faulthandler.dump_traceback_later(max(1, cap - 1), exit=True)
            res = _execute(req)
            faulthandler.cancel_dump_traceback_later()
            core.write_frame(w, res)
            os.close(w)
          finally:
            os._exit(0)
        os.close(w)
        children[r] = {'pid': pid, 'id': req['id'], 'buf': [], 't0': now,
                       'cap': float(req.get('cap', 60))}
      else:
        c = children[fd]
        data = os.read(fd, 1 << 20)
        if data:
          c['buf'].append(data)
          continue
        os.close(fd)
        del children[fd]
        _, st = os.waitpid(c['pid'], 0)
        raw = b''.join(c['buf'])
        status, result = 'ok', None
        if os.WIFSIGNALED(st):
          status = 'died:%d' % os.WTERMSIG(st)
        elif os.WEXITSTATUS(st) != 0 or len(raw) < 4:
          status = 'died:exit%d' % os.WEXITSTATUS(st)
        else:
          import pickle
          try:
            result = pickle.loads(raw[4:])
            if not result.get('ok'):
              status = 'error'
          except Exception:  # pylint: disable=broad-except
            status = 'died:garbled'
        if c.get('killed'):
          status = 'timeout'
        core.write_frame(out_fd, {'id': c['id'], 'status': status,
                                  'result': result, 'wall': time.time() - c['t0']})
    for fd, c in list(children.items()):
      if now - c['t0'] > c['cap'] + 2 and not c.get('killed'):
        c['killed'] = True
        try:
          os.kill(c['pid'], signal.SIGKILL)
        except OSError:
          pass


if __name__ == '__main__':
  main()
