"""C12 — a saved recipe reloads to the same rules and reproduces the same model.

Histories of recipe edits / quantize / checkpoint (save() or JSON dump) / restart from
disk, continued on the restarted object. "Restart" is checked twice: in the run's own
process on a new Quantizer, and in a fresh reference process under another hash seed
that sees only the files' contents.
"""
import copy
import glob
import json
import os
import pickle

from sim import alphabet as A
from sim import core
from sim import editgen
from sim import harness
from sim import modelgen

PROP = 'C12'
CHECKS = [['load', 'C12/reload-raises'], ['export', 'C12/reload-not-equal'],
          ['grid', 'C12/resolution-differs'], ['bytes', 'C12/bytes-differ']]


def draw_model(r, max_ops=6, p_gen=0.65):
  if r.random() < p_gen:
    return {'kind': 'gen', 'seed': r.randrange(1 << 30), 'max_ops': r.randint(1, max_ops)}
  if r.random() < 0.06:
    return {'kind': 'corpus', 'name': r.choice(modelgen.ERROR_CORPUS)}
  return {'kind': 'corpus', 'name': r.choice(modelgen.CORPUS)}


def generate(rseed, tier='quick'):
  r = core.rng_for(rseed, 'trace')
  mdesc = draw_model(r)
  spec, _ = modelgen.get_model(mdesc)
  ddesc = modelgen.draw_dataset_desc(r, 0, r.randint(1, 3))
  pool = editgen.regex_pool(r, spec, escape=mdesc['kind'] == 'corpus')
  knobs = {'faults': r.random() < 0.8, 'model_as': r.choice(['bytes', 'path'])}
  ops = []
  if r.random() < 0.12:
    ops.append({'op': 'boot'})
  rules = []
  names = []
  saved_names = []
  # legal model names: with dots, one a prefix of another, with dashes and digits
  name_pool = r.sample(['fc', 'fc.v2', 'net.v1', 'run-1.0', 'a.b.c', 'model.int8', 'x.tflite.bak'], 4)
  knobs['folder_trailing_slash'] = r.random() < 0.25
  generations = r.randint(1, 3) if r.random() < 0.8 else 4
  for g in range(generations):
    for _ in range(r.randint(1, 4)):
      e = editgen.draw_edit(r, spec, pool, 0, rules, knobs['faults'])
      ops.append(e)
      if editgen.looks_accepted(e):
        if e['op'] == 'load':
          rules = editgen.abstract_rules(e)
        else:
          rules += editgen.abstract_rules(e)
    if 'FULLY_CONNECTED' in spec.qnames_present() and r.random() < 0.1:
      # a runnable sub-channel rule, built with enum members, right before the generation is
      # quantized and saved: its reload is string-valued
      ops.append({'op': 'update', 'q': 0, 'regex': r.choice(['.*', r.choice(pool)]),
                  'operation': 'FULLY_CONNECTED', 'config': r.choice(A.BLOCKWISE_RUNNABLE),
                  'algorithm': A.MINMAX, 'spelling': 'enum'})
    did_q = False
    if r.random() < 0.75:
      ops.append({'op': 'quantize', 'q': 0})
      did_q = True
      if r.random() < 0.2:
        e = editgen.draw_edit(r, spec, pool, 0, rules, False)
        ops.append(e)  # edit between quantize and save: save() must write the quantized recipe
    name = name_pool.pop(0) if name_pool and r.random() < 0.45 else 'm%d' % len(names)
    via = 'save' if did_q and r.random() < 0.8 else 'dump'
    if knobs['faults'] and via == 'save' and saved_names and r.random() < 0.3:
      # save() into a name that already holds an earlier generation: must raise and leave the
      # older pair (model + recipe) as it was; the restart below reads that older pair
      old = r.choice(saved_names)
      ops.append({'op': 'checkpoint', 'q': 0, 'via': 'save', 'name': old, 'fault': 'save_existing'})
      ops.append({'op': 'restart', 'q': 0, 'from': old})
      continue
    ops.append({'op': 'checkpoint', 'q': 0, 'via': via, 'name': name})
    names.append(name)
    if via == 'save':
      saved_names.append(name)
    if knobs['faults'] and via == 'save' and r.random() < 0.15:
      ops.append({'op': 'checkpoint', 'q': 0, 'via': 'save', 'name': name, 'fault': 'save_existing'})
    ops.append({'op': 'restart', 'q': 0, 'from': name if r.random() < 0.9 else r.choice(names)})
  return {'v': 1, 'property': PROP, 'run_seed': rseed, 'knobs': knobs,
          'world': {'models': [mdesc], 'datasets': [ddesc]}, 'ops': ops}


# ------------------------------------------------------------------ helpers


def probes_for(spec):
  ops = list(spec.qnames_present()) + ['INPUT', 'OUTPUT']
  absent = [o for o in A.ALL_OPS[1:] if o not in ops]
  ops += absent[:2]
  scopes = []
  for sc in spec.scopes():
    scopes.append(''.join(sc))
    scopes.append(''.join(n + ';' for n in sc))
  scopes += [spec.tensors[i]['name'] for i in spec.inputs]
  scopes += A.GRID_SCOPES[:4]
  seen, out = set(), []
  for s in scopes:
    if s not in seen:
      seen.add(s)
      out.append(s)
  return [[o, s] for o in ops for s in out[:24]]


def grid_digest(q, probes):
  from ai_edge_quantizer import qtyping
  rm = harness.recipe_manager_of(q)
  out = []
  for op, scope in probes:
    try:
      key, cfg = rm.get_quantization_configs(qtyping.TFLOperationName(op), scope)
      out.append([op, scope, getattr(key, 'value', key), core.jcanon(cfg)])
    except Exception as e:  # pylint: disable=broad-except
      out.append([op, scope, 'raise:' + harness.exc_class(e), None])
  return core.digest(out)


def jdigest(v):
  return core.digest(json.loads(json.dumps(core.jcanon(v))))


def reload_and_measure(model_arg, recipe_path, calib, probes, want_bytes):
  """What a restarted process observes. Exceptions are part of the answer."""
  from ai_edge_quantizer import quantizer
  ans = {'load': 'ok', 'export': None, 'grid': None, 'bytes': None}
  try:
    q = quantizer.Quantizer(model_arg, recipe_path)
  except Exception as e:  # pylint: disable=broad-except
    ans['load'] = 'raise:' + harness.exc_class(e)
    return ans, None
  ans['export'] = jdigest(q.get_quantization_recipe())
  ans['grid'] = grid_digest(q, probes)
  if want_bytes:
    try:
      res = q.quantize(copy.deepcopy(calib))
      ans['bytes'] = core.sha(res.quantized_model)
    except Exception as e:  # pylint: disable=broad-except
      ans['bytes'] = 'raise:' + harness.exc_class(e)
  return ans, q


def first_mismatch(expect, ans):
  for key, cls in CHECKS:
    if expect.get(key) is None and key != 'load':
      continue
    if ans.get(key) != expect.get(key):
      if key == 'load':
        cls = cls + '/' + str(ans.get(key)).split(':')[-1]
      return cls, key
  return None, None


def boot_check(rec, step, model_bytes):
  from ai_edge_quantizer import quantizer, recipe
  import ai_edge_quantizer
  rdir = os.path.join(os.path.dirname(ai_edge_quantizer.__file__), 'recipes')
  for path in sorted(glob.glob(os.path.join(rdir, '*.json'))):
    base = os.path.basename(path)
    with open(path) as f:
      content = json.load(f)
    try:
      q = quantizer.Quantizer(bytearray(model_bytes), path)
    except Exception as e:  # pylint: disable=broad-except
      rec.violate('C12/shipped-recipe/' + base, step,
                  'shipped recipe %s does not load: %s' % (base, harness.exc_class(e)))
      return
    rec.probe('shipped_loaded')
    # the loaded rules must be the rules the file states: same (regex, operation, algorithm)
    # sequence, and the same recipe as entering those rules through the API one by one
    exported = q.get_quantization_recipe()
    stated = [(r['regex'], r['operation'], r['algorithm_key']) for r in content]
    loaded = [(r['regex'], getattr(r['operation'], 'value', r['operation']),
               getattr(r['algorithm_key'], 'value', r['algorithm_key'])) for r in exported]
    if stated != loaded:
      rec.violate('C12/shipped-recipe/' + base, step,
                  'shipped recipe %s states rules %s but loads to %s' % (base, stated, loaded))
      return
    from sim.props import c11 as _c11
    q_api = quantizer.Quantizer(bytearray(model_bytes))
    try:
      for r in content:
        q_api.update_quantization_recipe(r['regex'], r['operation'],
                                         _c11.cfg_from_dict(r.get('op_config')), r['algorithm_key'])
    except Exception as e:  # pylint: disable=broad-except
      rec.violate('C12/shipped-recipe/' + base, step,
                  'rules of shipped recipe %s are refused by update_quantization_recipe: %s'
                  % (base, harness.exc_class(e)))
      return
    # compared on the documented rule fields only: an implementation may keep annotations of its
    # own (comments, ids) that a rule entered through the API does not have
    if jdigest(_c11._export_key(q_api.get_quantization_recipe())) != jdigest(_c11._export_key(exported)):
      rec.violate('C12/shipped-recipe/' + base, step,
                  'shipped recipe %s loads to a different recipe than entering its rules through '
                  'update_quantization_recipe' % base)
      return
    if base[:-5] in A.SHIPPED:
      if jdigest(q.get_quantization_recipe()) != jdigest(content):
        rec.violate('C12/shipped-recipe/' + base, step,
                    'default recipe %s does not re-export to itself' % base)
        return
  helper = recipe.dynamic_wi8_afp32()
  q = quantizer.Quantizer(bytearray(model_bytes), copy.deepcopy(helper))
  if jdigest(q.get_quantization_recipe()) != jdigest(helper):
    rec.violate('C12/shipped-recipe/recipe.py', step,
                'recipe.dynamic_wi8_afp32() does not re-export to itself')


# ------------------------------------------------------------------ execution


def execute(doc):
  from ai_edge_quantizer import quantizer
  rec = harness.Recorder(doc)
  mdesc = doc['world']['models'][0]
  spec, mbytes = modelgen.get_model(mdesc)
  data = modelgen.gen_dataset(spec, doc['world']['datasets'][0])
  probes = probes_for(spec)
  sdir = rec.scratch()
  mpath = os.path.join(sdir, 'float_model.tflite')
  with open(mpath, 'wb') as f:
    f.write(mbytes)
  model_arg = (lambda: mpath) if doc['knobs'].get('model_as') == 'path' else (lambda: bytearray(mbytes))
  q = quantizer.Quantizer(model_arg())
  last = None          # info about the last successful quantize on the current object
  checkpoints = {}     # name -> dict(expect, calib, recipe_text)
  restarts = 0
  for step, op in enumerate(doc['ops']):
    kind = op['op']
    if kind == 'boot':
      boot_check(rec, step, mbytes)
      rec.event(step, 'boot', 'ok' if not rec.violations else 'violation')
    elif kind in ('update', 'load'):
      outcome, _ = editgen.apply_edit(q, op)
      if kind == 'load' and 'shipped' in op and outcome == 'ok':
        # a shipped file loaded at any point of a history must give exactly the rules it states
        with open(editgen.shipped_path(op['shipped'])) as f:
          stated = [(r_['regex'], r_['operation'], r_['algorithm_key']) for r_ in json.load(f)]
        loaded = [(r_['regex'], getattr(r_['operation'], 'value', r_['operation']),
                   getattr(r_['algorithm_key'], 'value', r_['algorithm_key']))
                  for r_ in q.get_quantization_recipe()]
        rec.probe('shipped_loaded_mid_history')
        if stated != loaded:
          rec.violate('C12/shipped-recipe/%s.json' % op['shipped'], step,
                      'shipped recipe %s loaded into a Quantizer that already had rules: file states %s, '
                      'recipe is %s' % (op['shipped'], stated, loaded))
          rec.event(step, kind, 'violation')
          break
      if outcome.startswith('rejected'):
        rec.fault('rejected_update')
      if outcome.startswith('raised'):
        rec.fault('torn_load')
      rec.event(step, kind, outcome)
    elif kind == 'quantize':
      calib, res = None, None
      try:
        if q.need_calibration:
          calib = q.calibrate(data)
          rec.probe('calibrated')
        pristine = copy.deepcopy(calib)
        res = q.quantize(copy.deepcopy(calib))
      except Exception as e:  # pylint: disable=broad-except
        rec.event(step, 'quantize', 'raised:' + harness.exc_class(e))
      if res is not None:
        last = {'result': res, 'calib': pristine,
                'export': jdigest(res.recipe), 'grid': grid_digest(q, probes),
                'bytes': core.sha(res.quantized_model)}
        rec.event(step, 'quantize', 'ok', last['bytes'])
        rec.probe('quantized')
    elif kind == 'checkpoint':
      name = op['name']
      rpath = os.path.join(sdir, name + '_recipe.json')
      if op['via'] == 'save' and last is not None:
        try:
          last['result'].save(sdir + ('/' if doc['knobs'].get('folder_trailing_slash') else ''), name)
          with open(os.path.join(sdir, name + '.tflite'), 'rb') as f:
            saved = f.read()
          with open(rpath) as f:
            text = f.read()
          checkpoints[name] = {
              'expect': {'load': 'ok', 'export': last['export'], 'grid': last['grid'],
                         'bytes': core.sha(saved)},
              'calib': last['calib'], 'text': text}
          if core.sha(saved) != last['bytes']:
            rec.violate('C12/bytes-differ', step, 'saved .tflite differs from quantize() bytes')
          # export_model() writes the same model without the recipe
          epath = os.path.join(sdir, name + '_exported.tflite')
          last['result'].export_model(epath)
          with open(epath, 'rb') as f:
            if core.sha(f.read()) != last['bytes']:
              rec.violate('C12/bytes-differ', step, 'export_model() wrote bytes that differ from quantize() bytes')
          rec.event(step, 'checkpoint', 'saved')
          rec.probe('checkpoint_save')
        except FileExistsError:
          rec.fault('save_existing')
          if name in checkpoints and checkpoints[name]['expect']['export'] != last['export']:
            rec.probe('save_existing_with_newer_recipe')
          rec.event(step, 'checkpoint', 'raised:FileExistsError')
        except Exception as e:  # pylint: disable=broad-except
          rec.event(step, 'checkpoint', 'raised:' + harness.exc_class(e))
      else:
        if op['via'] == 'save':
          try:
            q._result.save(sdir, name)  # no result yet: must raise
            rec.event(step, 'checkpoint', 'save-without-result-accepted')
          except Exception as e:  # pylint: disable=broad-except
            rec.fault('save_without_result')
            rec.event(step, 'checkpoint', 'raised:' + harness.exc_class(e))
        exported = q.get_quantization_recipe()
        try:
          text = json.dumps(exported)
        except Exception as e:  # pylint: disable=broad-except
          rec.violate('C12/reload-raises/' + harness.exc_class(e), step,
                      'exported recipe is not JSON-serialisable')
          break
        with open(rpath, 'w') as f:
          f.write(text)
        checkpoints[name] = {
            'expect': {'load': 'ok', 'export': jdigest(exported), 'grid': grid_digest(q, probes),
                       'bytes': None},
            'calib': None, 'text': text}
        rec.event(step, 'checkpoint', 'dumped')
        rec.probe('checkpoint_dump')
    elif kind == 'restart':
      cp = checkpoints.get(op['from'])
      if cp is None:
        rec.event(step, 'restart', 'skipped')
        continue
      rpath = os.path.join(sdir, op['from'] + '_recipe.json')
      want_bytes = cp['expect']['bytes'] is not None
      ans, q2 = reload_and_measure(model_arg(), rpath, cp['calib'], probes, want_bytes)
      cls, key = first_mismatch(cp['expect'], ans)
      rec.fault('restart')
      restarts += 1
      rec.nontrivial = True
      if restarts >= 2:
        rec.probe('second_generation_restart')
      if want_bytes:
        rec.probe('restart_with_bytes')
      if cls is not None:
        rec.violate(cls, step, 'restart from %s: %s: before=%s after reload=%s; recipe file: %s'
                    % (op['from'], key, cp['expect'].get(key), ans.get(key), cp['text'][:300]))
        rec.event(step, 'restart', 'violation')
        break
      rec.oblige(CHECKS, step,
                 {'model': mdesc, 'recipe_text': cp['text'], 'probes': probes,
                  'calib': pickle.dumps(cp['calib'], protocol=4), 'want_bytes': want_bytes,
                  'model_as': doc['knobs'].get('model_as')},
                 cp['expect'], 'restart from %s in a fresh process' % op['from'])
      rec.event(step, 'restart', 'ok', ans['export'])
      q = q2
      last = None
    rec.state(jdigest(q.get_quantization_recipe()), bool(last), sorted(checkpoints))
    if rec.violations:
      break
  return rec.result()


def reference(ob):
  """Fresh process: sees only the files' contents."""
  import shutil
  import tempfile
  spec, mbytes = modelgen.get_model(ob['model'])
  root = os.environ.get('AEQ_SCRATCH') or tempfile.gettempdir()
  d = tempfile.mkdtemp(prefix='ref-', dir=root)
  try:
    rpath = os.path.join(d, 'x_recipe.json')
    with open(rpath, 'w') as f:
      f.write(ob['recipe_text'])
    mpath = os.path.join(d, 'float_model.tflite')
    with open(mpath, 'wb') as f:
      f.write(mbytes)
    calib = pickle.loads(ob['calib'])
    arg = mpath if ob.get('model_as') == 'path' else bytearray(mbytes)
    ans, _ = reload_and_measure(arg, rpath, calib, ob['probes'], ob['want_bytes'])
    return ans
  finally:
    shutil.rmtree(d, ignore_errors=True)
