"""C09 — calibration statistics are exact, order-faithful and resumable.

A dataset is cut into resumed sessions spread over two Quantizer objects; streams fail
at scheduled samples and the client retries from the last durable (returned) result.
Oracles: one pass in a fresh process (bit equality), previous result untouched,
float64 EMA reference over min/max read from the harness's own interpreter,
constants' true per-tensor / per-channel min/max.
"""
import copy
import pickle

import numpy as np

from sim import alphabet as A
from sim import core
from sim import editgen
from sim import harness
from sim import modelgen
from sim import refmodel

PROP = 'C09'
C09_CORPUS = tuple(n for n in modelgen.CORPUS)


def generate(rseed, tier='quick'):
  r = core.rng_for(rseed, 'trace')
  if r.random() < 0.7:
    mdesc = {'kind': 'gen', 'seed': r.randrange(1 << 30),
             'max_ops': r.randint(1, 8 if tier == 'thorough' else 6)}
    if r.random() < 0.3:
      mdesc['bias'] = {'rnn': 25.0}     # stateful cell: per-sample statistics need a reset interpreter
  else:
    mdesc = {'kind': 'corpus', 'name': r.choice(C09_CORPUS)}
  spec, _ = modelgen.get_model(mdesc)
  n = r.randint(1, 8 if tier == 'quick' else 12)
  ddesc = modelgen.draw_dataset_desc(r, 0, n)
  pool = editgen.regex_pool(r, spec, escape=mdesc['kind'] == 'corpus')
  knobs = {
      'faults': r.random() < 0.8,
      'container': r.choice(['list', 'gen', 'iter', 're', 'tuple']),
      'two_objects': r.random() < 0.7,
      'durable_roundtrip': r.random() < 0.7,
      'explicit_signature_key': r.random() < 0.4,
  }
  ops = []
  # ---- recipe (applied to both objects): at least one static rule
  scfg = r.choice(['a8w8', 'a8w8', 'a8w8_t', 'a16w8', 'a8sw8'])
  if r.random() < 0.75:
    ops.append({'op': 'update', 'q': 'both', 'regex': '.*', 'operation': '*', 'config': scfg,
                'algorithm': A.MINMAX, 'spelling': 'enum'})
  elif r.random() < 0.5:
    ops.append({'op': 'load', 'q': 'both',
                'shipped': r.choice(['default_a8w8_recipe', 'default_a16w8_recipe'])})
  else:
    present = spec.qnames_present() or ['FULLY_CONNECTED']
    for opn in r.sample(present, min(len(present), r.randint(1, 3))):
      ops.append({'op': 'update', 'q': 'both', 'regex': r.choice(pool[:4]), 'operation': opn,
                  'config': scfg, 'algorithm': A.MINMAX, 'spelling': 'enum'})
  rules = [['.*', '*', scfg, A.MINMAX]]
  for _ in range(r.choice([0, 0, 1, 1, 2, 3])):
    e = editgen.draw_edit(r, spec, pool, 'both', rules, faults=False)
    if e['op'] == 'load':
      continue
    ops.append(e)
  # ---- sessions: a composition of n
  left = n
  sessions = 0
  while left > 0 and sessions < 6:
    if sessions == 5:
      ln = left
    else:
      ln = r.randint(0 if r.random() < 0.08 else 1, left)
    q = 0 if not knobs['two_objects'] or r.random() < 0.55 else 1
    fault = None
    if knobs['faults'] and ln > 0 and r.random() < 0.4:
      at = r.choice([0, ln - 1, ln, r.randint(0, ln)])
      fault = {'kind': 'stream_fail', 'at': at}
    ops.append({'op': 'calibrate', 'q': q, 'len': ln, 'fault': fault})
    if fault is not None:
      # bounded retries; the retry may fail again
      for attempt in range(r.choice([1, 1, 2])):
        f2 = None
        if r.random() < 0.35 and attempt == 0:
          f2 = {'kind': 'stream_fail', 'at': r.randint(0, ln)}
        ops.append({'op': 'calibrate', 'q': q if r.random() < 0.6 else 1 - q if knobs['two_objects'] else q,
                    'len': ln, 'fault': f2, 'retry': True})
        if f2 is None:
          break
    left -= ln
    sessions += 1
  ops.append({'op': 'finish', 'q': r.choice([0, 1]) if knobs['two_objects'] else 0})
  return {'v': 1, 'property': PROP, 'run_seed': rseed, 'knobs': knobs,
          'world': {'models': [mdesc], 'datasets': [ddesc]}, 'ops': ops}


# ------------------------------------------------------------------ reference measurements


def harness_minmax(spec, mbytes, data):
  """Per-sample min/max of every runtime tensor, read from the harness's own interpreter.

  Returns {tensor name: (list of mins, list of maxs)}; names are taken from the flatbuffer
  by index, not through the library's name->content map.
  """
  from ai_edge_litert import interpreter as tfl
  it = tfl.Interpreter(model_content=bytes(mbytes),
                       experimental_op_resolver_type=tfl.OpResolverType.BUILTIN_WITHOUT_DEFAULT_DELEGATES,
                       experimental_preserve_all_tensors=True)
  it.allocate_tensors()
  out = {}
  runtime = [i for i, t in enumerate(spec.tensors) if t['data'] is None]
  finite = True
  for sample in data:
    for nm, idx in zip(spec.sig_in, spec.inputs):
      it.set_tensor(idx, sample[nm])
    it.invoke()
    for i in runtime:
      try:
        v = it.get_tensor(i)
      except ValueError:
        continue
      if v.size == 0:
        continue
      if v.dtype.kind == 'f' and not np.all(np.isfinite(v)):
        finite = False
      mn, mx = out.setdefault(spec.tensors[i]['name'], ([], []))
      mn.append(float(np.min(v)))
      mx.append(float(np.max(v)))
    it.reset_all_variables()
  return out, finite


def constant_candidates(spec, name):
  """Legitimate statistics of a constant: per-tensor, or per-channel along the weight axis of
  some operator consuming it."""
  idx = [i for i, t in enumerate(spec.tensors) if t['name'] == name][0]
  arr = spec.tensors[idx]['data']
  if arr is None:
    return None
  arr = np.asarray(arr)
  cands = [(np.min(arr).reshape(-1), np.max(arr).reshape(-1))]
  rank = arr.ndim
  axes = set()
  for o in spec.ops:
    if idx not in o['inputs']:
      continue
    t = o['type']
    if t in ('FULLY_CONNECTED', 'CONV_2D', 'EMBEDDING_LOOKUP', 'CONV_2D_TRANSPOSE', 'TRANSPOSE_CONV'):
      axes.add(0)
    elif t == 'DEPTHWISE_CONV_2D':
      axes.add(3)
    elif t == 'BATCH_MATMUL':
      axes.add(rank - 2 if o['opts'].get('adj_y') else rank - 1)
  for a in axes:
    if 0 <= a < rank:
      red = tuple(k for k in range(rank) if k != a)
      cands.append((np.min(arr, axis=red).reshape(-1), np.max(arr, axis=red).reshape(-1)))
  return cands


def close(a, b, scale):
  # float32 EMA over <= 12 terms: |error| <= ~12 * 3 * 6e-8 * scale = 2.2e-6 * scale; every breakage this
  # oracle is meant for (wrong weight, double fold, skipped or reordered sample) errs by >= 1e-3 * scale
  return abs(a - b) <= 1e-5 * max(abs(a), abs(b)) + 5e-6 * scale + 1e-30


def blockwise_constants(spec, q):
  """Constants consumed by an operator whose resolved weight config is BLOCKWISE. The statement
  speaks of per-tensor or per-channel statistics; block-wise ones (reachable only through
  skip_checks or FULLY_CONNECTED sub-channel configs) are neither, so they are not judged."""
  from ai_edge_quantizer import qtyping
  out = set()
  try:
    rm = harness.recipe_manager_of(q)
  except Exception:  # pylint: disable=broad-except
    return out
  for o in spec.ops:
    qn = modelgen.QNAME.get(o['type'])
    if not qn:
      continue
    names = [spec.tensors[i]['name'] for i in o['outputs']]
    for scope in (''.join(names), ''.join(n + ';' for n in names)):
      try:
        _, cfg = rm.get_quantization_configs(qtyping.TFLOperationName(qn), scope)
      except Exception:  # pylint: disable=broad-except
        continue
      w = cfg.weight_tensor_config
      if w is not None and getattr(w.granularity, 'value', w.granularity) == 'BLOCKWISE':
        out.update(spec.tensors[i]['name'] for i in o['inputs'] if i >= 0 and spec.tensors[i]['data'] is not None)
  return out


def check_values(rec, step, spec, result, mm, label, skip_constants=()):
  """Oracles 3 and 4 on a calibration result."""
  names = {t['name']: t for t in spec.tensors}
  for key in sorted(result):
    qsv = result[key]
    if key not in names:
      rec.probe('result_key_not_a_tensor_name')   # auxiliary entries are not the property's business
      continue
    if not qsv:
      continue  # registered but never observed (e.g. no sample folded yet)
    if 'min' not in qsv or 'max' not in qsv:
      rec.violate('C09/ema-mismatch/runtime', step, '%s: %r has no min/max: %s' % (label, key, sorted(qsv)))
      return False
    mn = np.asarray(qsv['min'], dtype=np.float64).reshape(-1)
    mx = np.asarray(qsv['max'], dtype=np.float64).reshape(-1)
    if names[key]['data'] is not None:
      if key in skip_constants:
        rec.probe('blockwise_constant_not_judged')
        continue
      cands = constant_candidates(spec, key)
      ok = False
      for cmn, cmx in cands:
        if cmn.shape == mn.shape and np.array_equal(cmn.astype(np.float64), mn) and \
           np.array_equal(cmx.astype(np.float64), mx):
          ok = True
          break
      rec.probe('constant_checked')
      if len(mn) > 1:
        rec.probe('constant_per_channel')
      if not ok:
        rec.violate('C09/ema-mismatch/constant', step,
                    '%s: constant %r: recorded min=%s max=%s is neither its per-tensor nor a legitimate '
                    'per-channel min/max (true per-tensor: %s .. %s)'
                    % (label, key, mn[:6].tolist(), mx[:6].tolist(), cands[0][0].tolist(), cands[0][1].tolist()))
        return False
      continue
    if key not in mm:
      continue
    mins, maxs = mm[key]
    if not mins:
      continue
    emn, emx = refmodel.ema_reference(mins), refmodel.ema_reference(maxs)
    # The library folds in float32. Its rounding error is relative to the magnitude of the folded
    # *terms*, not of the result (terms of both signs can cancel to a small average), so the
    # absolute part of the tolerance scales with the largest per-sample |min|/|max| of the tensor.
    scale = max([abs(v) for v in mins] + [abs(v) for v in maxs] + [1e-6])
    rec.probe('runtime_checked')
    if len(mn) != 1 or len(mx) != 1 or not close(mn[0], emn, scale) or not close(mx[0], emx, scale):
      rec.violate('C09/ema-mismatch/runtime', step,
                  '%s: tensor %r: recorded [%r, %r], EMA of true per-sample min/max over %d samples '
                  'in dataset order [%r, %r]' % (label, key, mn.tolist(), mx.tolist(), len(mins), emn, emx))
      return False
  return True


# ------------------------------------------------------------------ execution


def build_quantizers(doc, mbytes, n=2):
  from ai_edge_quantizer import quantizer
  qs = [quantizer.Quantizer(bytearray(mbytes)) for _ in range(n)]
  return qs


def apply_recipe(qs, ops):
  outcomes = []
  for op in ops:
    if op['op'] in ('update', 'load'):
      for q in qs:
        out, _ = editgen.apply_edit(q, op)
      outcomes.append(out)
  return outcomes


def execute(doc):
  rec = harness.Recorder(doc)
  mdesc = doc['world']['models'][0]
  spec, mbytes = modelgen.get_model(mdesc)
  data = modelgen.gen_dataset(spec, doc['world']['datasets'][0])
  knobs = doc['knobs']
  qs = build_quantizers(doc, mbytes)
  sig_key = None
  if knobs.get('explicit_signature_key'):
    from sim.props import c14 as _c14
    sig_key = _c14.signature_key(mbytes)
    if sig_key is not None:
      rec.probe('explicit_signature_key')
  durable = None
  pos = 0
  sessions = 0
  last_obj = None
  aborted = False
  step = -1
  for step, op in enumerate(doc['ops']):
    kind = op['op']
    if kind in ('update', 'load'):
      out = apply_recipe(qs, [op])
      rec.event(step, kind, out[0] if out else 'skipped')
      continue
    if kind not in ('calibrate', 'finish'):
      continue
    q = qs[op['q']]
    if kind == 'finish':
      ln, fault = len(data) - pos, None
      if ln == 0 and durable is not None:
        rec.event(step, 'finish', 'nothing-left')
        continue
    else:
      ln, fault = min(op['len'], len(data) - pos), op.get('fault')
    chunk = data[pos:pos + ln]
    fail_at = None
    if fault:
      fail_at = min(fault['at'], len(chunk))
    container = knobs.get('container', 'list')
    stream, fs = harness.make_stream(chunk, fail_at, container)
    prev = durable
    prev_digest = core.digest(prev) if prev is not None else None
    outcome, ret = None, None
    try:
      if not q.need_calibration:
        rec.event(step, kind, 'no-calibration-needed')
        aborted = True
        break
      if sig_key is not None:
        ret = q.calibrate(stream, signature_key=sig_key, previous_calibration_result=prev)
      else:
        ret = q.calibrate(stream, previous_calibration_result=prev)
      outcome = 'returned'
    except harness.SimulatedIOError:
      outcome = 'stream-failed'
    except Exception as e:  # pylint: disable=broad-except
      # an implementation may wrap the stream's error in its own exception type
      if fs is not None and fs.raised:
        outcome = 'stream-failed'
        rec.probe('stream_error_wrapped')
      else:
        outcome = 'raised:' + harness.exc_class(e)
    if prev is not None and core.digest(prev) != prev_digest:
      rec.violate('C09/previous-modified', step,
                  'the dict passed as previous_calibration_result changed across a calibrate() that %s'
                  % outcome)
      rec.event(step, kind, outcome, 'previous-modified')
      break
    if fault:
      rec.fault('stream_fail')
      if fail_at == 0:
        rec.fault('stream_fail_first')
      if fail_at >= len(chunk) - 1:
        rec.fault('stream_fail_last')
    if container in ('gen', 'iter', 'reuse') or (fault and container in ('list', 'tuple')):
      rec.fault('one_shot_stream')
    if container == 'reuse':
      rec.fault('buffer_reusing_stream')
    if op.get('retry'):
      rec.probe('retry')
    if outcome == 'returned':
      folded = len(chunk) if fs is None else fs.yielded
      if fault and fs is not None:
        rec.probe('call_survived_dead_stream')
      if prev is not None:
        rec.nontrivial = True
        rec.probe('resumed_session')
        if last_obj is not None and last_obj != op['q']:
          rec.probe('resume_other_object')
      if ln == 0:
        rec.probe('empty_session')
      durable = pickle.loads(pickle.dumps(ret, protocol=4)) if knobs.get('durable_roundtrip') else ret
      pos += folded
      sessions += 1
      last_obj = op['q']
      if sessions >= 3:
        rec.probe('sessions_ge3')
      rec.event(step, kind, 'returned', folded, core.digest(ret))
    elif outcome == 'stream-failed':
      rec.event(step, kind, 'stream-failed', fs.yielded if fs else 0)
    else:
      rec.event(step, kind, outcome)
      aborted = True
      break
    rec.state(core.digest(durable) if durable is not None else None, pos)
  if 'RNN' in spec.op_types():
    rec.probe('model_with_variable_tensor')
  if rec.violations or aborted or durable is None or pos < len(data):
    if not rec.violations and not aborted and durable is not None and pos < len(data):
      rec.probe('trace_without_finish')
    return rec.result()
  # ---- oracles on the final durable result
  step += 1
  # 1. one pass, same process, fresh object (cheap) + fresh process (obligation)
  fresh = build_quantizers(doc, mbytes, 1)
  apply_recipe(fresh, doc['ops'])
  try:
    one = fresh[0].calibrate(list(data))
    one_d = core.digest(one)
  except Exception as e:  # pylint: disable=broad-except
    one, one_d = None, 'raise:' + harness.exc_class(e)
  fin_d = core.digest(durable)
  if one_d != fin_d:
    detail = 'resumed/crashed/retried history differs from one calibrate() pass over the same %d samples' % len(data)
    if one is not None:
      diff = [k for k in sorted(set(one) | set(durable))
              if core.digest(one.get(k)) != core.digest(durable.get(k))]
      detail += '; differing keys: %s' % diff[:4]
      if diff:
        detail += '; e.g. %r: history=%s one-pass=%s' % (diff[0], _fmt(durable.get(diff[0])), _fmt(one.get(diff[0])))
    rec.violate('C09/resume-not-one-pass', step, detail)
    rec.event(step, 'oracle', 'resume-not-one-pass')
    return rec.result()
  rec.oblige('C09/resume-not-one-pass', step,
             {'model': mdesc, 'dataset': doc['world']['datasets'][0],
              'recipe_ops': [o for o in doc['ops'] if o['op'] in ('update', 'load')]},
             fin_d, 'final statistics after %d sessions vs one pass in a fresh process' % sessions)
  # 3/4. reference model
  mm, finite = harness_minmax(spec, mbytes, data)
  if not finite:
    rec.probe('nonfinite_skipped')
    rec.event(step, 'oracle', 'nonfinite-skipped')
  else:
    ok = check_values(rec, step, spec, durable, mm, 'final result', blockwise_constants(spec, qs[0]))
    rec.event(step, 'oracle', 'ok' if ok else 'ema-mismatch', len(durable))
  return rec.result()


def _fmt(q):
  if not q:
    return str(q)
  return '[%s, %s]' % (np.asarray(q.get('min')).reshape(-1)[:3].tolist(),
                       np.asarray(q.get('max')).reshape(-1)[:3].tolist())


def reference(ob):
  spec, mbytes = modelgen.get_model(ob['model'])
  data = modelgen.gen_dataset(spec, ob['dataset'])
  qs = build_quantizers(None, mbytes, 1)
  apply_recipe(qs, ob['recipe_ops'])
  try:
    return core.digest(qs[0].calibrate(list(data)))
  except Exception as e:  # pylint: disable=broad-except
    return 'raise:' + harness.exc_class(e)
