"""C14 — calibrate/quantize/validate are pure: no input mutation, no history dependence.

Seeded interleavings of recipe edits, calibrate, quantize, validate on two Quantizer
objects that share caller-owned values (calibration results, recipe lists, datasets,
model bytearrays). Oracles: canonical digests of every caller-owned value after every
step; every quantize() re-executed by a fresh Quantizer in a fresh process under another
PYTHONHASHSEED from (model, that object's recipe calls, pristine statistics).
"""
import copy
import os
import pickle

from sim import alphabet as A
from sim import core
from sim import editgen
from sim import harness
from sim import modelgen

PROP = 'C14'


def draw_model(r):
  if r.random() < 0.12:
    # two independent subgraphs, one signature each (think prefill/decode)
    if r.random() < 0.25:
      return {'kind': 'corpus', 'name': r.choice(modelgen.MULTI_CORPUS)}
    return {'kind': 'gen2', 'seed': r.randrange(1 << 30), 'max_ops': r.randint(1, 4)}
  if r.random() < 0.65:
    d = {'kind': 'gen', 'seed': r.randrange(1 << 30), 'max_ops': r.randint(1, 7)}
    if r.random() < 0.06:
      d['empty_buffer'] = r.choice(['tensor', 'orphan'])
    d['bias'] = {'reshape': 1.6, 'transpose': 1.4, 'slice': 1.4, 'split': 1.4, 'pool': 1.6,
                 'concat': 1.5, 'softmax': 1.6, 'logistic': 1.6, 'tanh': 1.6}
    return d
  if r.random() < 0.08:
    return {'kind': 'corpus', 'name': r.choice(modelgen.ERROR_CORPUS)}
  return {'kind': 'corpus', 'name': r.choice(modelgen.CORPUS)}


def generate(rseed, tier='quick'):
  r = core.rng_for(rseed, 'trace')
  n_models = r.choices([1, 2], [7, 3])[0]
  models = [draw_model(r) for _ in range(n_models)]
  specs = [modelgen.get_model(m)[0] for m in models]
  datasets = []
  for mi in range(n_models):
    if modelgen.is_multi(models[mi]):
      for sig in (0, 1):
        d = modelgen.draw_dataset_desc(r, mi, r.randint(1, 3))
        d['sig'] = sig
        datasets.append(d)
      continue
    for _ in range(r.randint(1, 2)):
      datasets.append(modelgen.draw_dataset_desc(r, mi, r.randint(1, 4)))
    if r.random() < 0.15:
      # test data with NaN / Inf entries: legal float32 inputs; used like any other dataset
      d = modelgen.draw_dataset_desc(r, mi, r.randint(1, 2))
      d['dist'] = 'nonfinite'
      datasets.append(d)
  pools = [editgen.regex_pool(r, s, escape=models[i]['kind'] == 'corpus') for i, s in enumerate(specs)]
  for i, m in enumerate(models):
    if m['kind'] == 'gen2':
      pools[i] = ['^g2/', '^g2/', '^(?!g2/)'] + pools[i]
  knobs = {
      'faults': r.random() < 0.75,
      'container': r.choice(['list', 'gen', 'iter', 're', 'tuple']),
      'share_model_bytearray': r.random() < 0.5,
      'large_threshold': r.choice([None, None, None, 0, 2**31]),
  }
  qmodel = [0, 0 if n_models == 1 or r.random() < 0.6 else 1]
  shared_recipes = []
  for _ in range(r.randint(0, 2)):
    mi = r.randrange(n_models)
    rules = [['.*', '*', r.choice(['a8w8', 'a8w8', 'a16w8', 'drq8_ch', 'wo8_ch']), A.MINMAX]]
    for _ in range(r.randint(0, 2)):
      rules.append(editgen.draw_rule(r, specs[mi], pools[mi], 0.95))
    shared_recipes.append(rules)
  ops = []
  for q in (0, 1):
    how = r.choice(['bytes', 'bytearray', 'bytearray', 'path'])
    init = None
    if r.random() < 0.25:
      init = {'shipped': r.choice(A.SHIPPED)} if r.random() < 0.6 or not shared_recipes else \
          {'recipe': r.randrange(len(shared_recipes))}
    ops.append({'op': 'new', 'q': q, 'model': qmodel[q], 'as': how, 'recipe': init})
  rules = [[], []]
  has_recipe = [ops[0]['recipe'] is not None, ops[1]['recipe'] is not None]
  for q in (0, 1):
    if has_recipe[q]:
      rules[q] = [['.*', '*', 'a8w8', A.MINMAX]]
  has_result = [False, False]
  calibs = []   # (cid, model index)
  n_steps = r.randint(4, 14 if tier == 'quick' else 18)
  next_cid = 0
  last_quant = None   # (q, calib)
  for _ in range(n_steps):
    q = r.randrange(2)
    mi = qmodel[q]
    static = editgen.maybe_static(rules[q])
    cands = [('edit', 3.0 if not has_recipe[q] else 1.6)]
    if has_recipe[q] and static:
      cands.append(('calibrate', 2.0 if not [c for c in calibs if c[1] == mi] else 0.8))
    if has_recipe[q]:
      cands.append(('quantize', 3.0))
    if has_result[q]:
      cands.append(('validate', 0.8))
    elif knobs['faults']:
      cands.append(('validate', 0.1))
    cands.append(('export', 0.25))
    # ('clobber_file', overwriting the model file between calls, is implemented below but no longer
    # generated: what "the model" of a path-constructed Quantizer is after the user has overwritten
    # the file is not fixed by the property, see DESIGN.md 10.5, r8-c14)
    if has_recipe[1 - q]:
      cands.append(('load_other', 0.35))
    if shared_recipes:
      cands.append(('load_shared', 0.4))
    if last_quant is not None and r.random() < 0.35:
      # the selective-quantization workflow: same statistics, recipe changed in between
      q = last_quant[0] if r.random() < 0.6 else 1 - last_quant[0]
      if qmodel[q] == qmodel[last_quant[0]] and has_recipe[q]:
        e = editgen.draw_edit(r, specs[qmodel[q]], pools[qmodel[q]], q, rules[q] or [['.*', '*', 'a8w8', A.MINMAX]], False)
        if e['op'] == 'update':
          ops.append(e)
          rules[q] += editgen.abstract_rules(e)
        ops.append({'op': 'quantize', 'q': q, 'calib': last_quant[1]})
        has_result[q] = True
        continue
    k = r.choices([c for c, _ in cands], [w for _, w in cands])[0]
    if k == 'edit':
      e = editgen.draw_edit(r, specs[mi], pools[mi], q, rules[q], knobs['faults'])
      ops.append(e)
      if editgen.looks_accepted(e):
        if e['op'] == 'load':
          rules[q] = editgen.abstract_rules(e)
        else:
          rules[q] = rules[q] + editgen.abstract_rules(e)
        has_recipe[q] = True
    elif k == 'load_other':
      ops.append({'op': 'load', 'q': q, 'export_of': 1 - q})
      rules[q] = list(rules[1 - q])
      has_recipe[q] = True
    elif k == 'load_shared':
      i = r.randrange(len(shared_recipes))
      ops.append({'op': 'load', 'q': q, 'recipe': i, 'as_tuple': r.random() < 0.2})
      rules[q] = list(shared_recipes[i])
      has_recipe[q] = True
    elif k == 'calibrate':
      ds = [i for i, d in enumerate(datasets) if d['model'] == mi]
      di = r.choice(ds)
      n = datasets[di]['n']
      lo = r.randint(0, n - 1) if r.random() < 0.3 else 0
      hi = r.randint(lo + 1, n) if r.random() < 0.4 else n
      prev = None
      mine = [c for c in calibs if c[1] == mi]
      if mine and r.random() < 0.3:
        prev = r.choice(mine)[0]
      fault = None
      if knobs['faults'] and r.random() < 0.18:
        fault = {'kind': 'stream_fail', 'at': r.randint(0, hi - lo)}
      cid = 'c%d' % next_cid
      next_cid += 1
      if modelgen.is_multi(models[mi]):
        ops.append({'op': 'synth_stats', 'q': q, 'out': cid, 'py_floats': r.random() < 0.3})
        calibs.append((cid, mi))
        continue
      ops.append({'op': 'calibrate', 'q': q, 'data': di, 'lo': lo, 'hi': hi, 'prev': prev,
                  'fault': fault, 'out': cid})
      if fault is None:
        calibs.append((cid, mi))
        if r.random() < 0.2:
          rid = 'c%d' % next_cid
          next_cid += 1
          ops.append({'op': 'restore', 'src': cid, 'out': rid, 'form': r.choice(['f64', 'pyfloat', 'list'])})
          calibs.append((rid, mi))
    elif k == 'quantize':
      mine = [c for c in calibs if c[1] == mi]
      calib = None
      if static:
        x = r.random()
        if not mine and r.random() < 0.8:
          # progress first: calibrate before quantizing
          ds = [i for i, d in enumerate(datasets) if d['model'] == mi]
          di = r.choice(ds)
          cid = 'c%d' % next_cid
          next_cid += 1
          if modelgen.is_multi(models[mi]):
            ops.append({'op': 'synth_stats', 'q': q, 'out': cid})
          else:
            ops.append({'op': 'calibrate', 'q': q, 'data': di, 'lo': 0, 'hi': datasets[di]['n'],
                        'prev': None, 'fault': None, 'out': cid})
          calibs.append((cid, mi))
          mine = [(cid, mi)]
        if mine and (x < 0.86 or not knobs['faults']):
          calib = r.choice(mine)[0]
        elif x < 0.93 and [c for c in calibs if c[1] != mi]:
          calib = r.choice([c for c in calibs if c[1] != mi])[0]   # foreign statistics
        else:
          calib = None if r.random() < 0.6 else 'EMPTY'             # quantize without / with empty statistics
      elif mine and r.random() < 0.25:
        calib = r.choice(mine)[0]
      ops.append({'op': 'quantize', 'q': q, 'calib': calib})
      has_result[q] = True
      last_quant = (q, calib) if calib is not None else last_quant
    elif k == 'validate':
      ds = [i for i, d in enumerate(datasets) if d['model'] == mi]
      ops.append({'op': 'validate', 'q': q, 'data': r.choice(ds + [None]),
                  'metric': r.choice(['mse', 'median_diff_ratio']), 'none_key': r.random() < 0.3,
                  'reference_kernel': r.random() < 0.25})
    elif k == 'clobber':
      ops.append({'op': 'clobber_file', 'q': q})
    else:
      ops.append({'op': 'export', 'q': q})
  return {'v': 1, 'property': PROP, 'run_seed': rseed, 'knobs': knobs,
          'world': {'models': models, 'datasets': datasets, 'recipes': shared_recipes}, 'ops': ops}


# ------------------------------------------------------------------ caller-owned values


class Owned:
  """Registry of caller-owned values with the digest taken at creation."""

  def __init__(self):
    self.vals = {}   # name -> [obj, digest, kind]

  def add(self, name, obj, kind):
    self.vals[name] = [obj, core.digest(obj), kind]

  def check(self, rec, step, call, prev_name=None):
    for name, (obj, dg, kind) in self.vals.items():
      if core.digest(obj) != dg:
        k = kind
        if kind == 'calibration-result' and name == prev_name:
          k = 'previous-result'
        rec.violate('C14/no-mutation/' + k, step,
                    'caller-owned %s %s changed across %s' % (kind, name, call))
        return False
    return True


def synth_stats(spec, mbytes, datasets_by_sig):
  """Min/max of every runtime tensor of every signature, measured with the harness's own
  interpreter. Public-API calibration of a multi-subgraph model is not usable on this tree for
  operators outside subgraph 0 (C10's business), so users of such models hand statistics in."""
  import numpy as np
  from ai_edge_litert import interpreter as tfl
  it = tfl.Interpreter(model_content=bytes(mbytes),
                       experimental_op_resolver_type=tfl.OpResolverType.BUILTIN_WITHOUT_DEFAULT_DELEGATES,
                       experimental_preserve_all_tensors=True)
  it.allocate_tensors()
  out = {}
  for k, (sp, key) in enumerate(zip(spec.specs, spec.sig_keys)):
    runner = it.get_signature_runner(key)
    lo, hi = {}, {}
    for sample in datasets_by_sig.get(k, []):
      runner(**sample)
      for i, t in enumerate(sp.tensors):
        if t['data'] is not None or t['dtype'] != 'f':
          continue
        try:
          v = it.get_tensor(i, subgraph_index=k)
        except ValueError:
          continue
        if v.size == 0:
          continue
        lo[t['name']] = min(lo.get(t['name'], np.inf), float(np.min(v)))
        hi[t['name']] = max(hi.get(t['name'], -np.inf), float(np.max(v)))
    for name in lo:
      out[name] = {'min': np.array(lo[name], dtype=np.float32).reshape([1] * 1),
                   'max': np.array(hi[name], dtype=np.float32).reshape([1] * 1)}
  return out


def signature_key(mbytes):
  from tensorflow.lite.tools import flatbuffer_utils
  m = flatbuffer_utils.read_model_from_bytearray(bytearray(mbytes))
  if m.signatureDefs:
    return m.signatureDefs[0].signatureKey.decode()
  return None


def make_quantizer(how, mbytes, mdesc, recipe_arg, scratch, shared=None):
  from ai_edge_quantizer import quantizer
  if how == 'path':
    # always a private copy: the run may overwrite it later (clobber_file)
    make_quantizer.counter = getattr(make_quantizer, 'counter', 0) + 1
    arg = os.path.join(scratch, 'model-%s-%d.tflite' % (core.digest(mdesc)[:10], make_quantizer.counter))
    with open(arg, 'wb') as f:
      f.write(mbytes)
  elif how == 'bytes':
    arg = bytes(mbytes)
  else:
    arg = shared if shared is not None else bytearray(mbytes)
  return quantizer.Quantizer(arg, recipe_arg), arg


def replay_recipe_calls(q, calls):
  for c in calls:
    if c['op'] == 'update':
      editgen.apply_edit(q, c)
    elif c['op'] == 'load':
      try:
        q.load_quantization_recipe(c['literal'])
      except Exception:  # pylint: disable=broad-except
        pass


# ------------------------------------------------------------------ execution


def execute(doc):
  import json
  rec = harness.Recorder(doc)
  world, knobs = doc['world'], doc['knobs']
  thr = knobs.get('large_threshold')
  if thr is not None:
    os.environ['AI_EDGE_QUANTIZER_VERIF_LARGE_MODEL_THRESHOLD'] = str(thr)
    rec.fault('large_path' if thr == 0 else 'large_knob_inert')
  models = [modelgen.get_model(m) for m in world['models']]
  datasets = [modelgen.gen_dataset(models[d['model']][0], d) for d in world['datasets']]
  owned = Owned()
  for i, d in enumerate(datasets):
    owned.add('data:%d' % i, d, 'dataset')
  shared_lists = []
  for i, rules in enumerate(world.get('recipes') or []):
    lst = [A.rule_dict(*ru) for ru in rules]
    shared_lists.append(lst)
    owned.add('recipe:%d' % i, lst, 'recipe')
  shared_ba = {}
  qs = {}          # q -> dict(obj, model index, calls, how)
  calibs = {}      # cid -> dict(obj, pristine, model)
  n_quant = {}
  used_calibs = {} # cid -> set of recipe digests it was quantized under
  sdir = rec.scratch()
  for step, op in enumerate(doc['ops']):
    kind = op['op']
    call = kind
    prev_name = None
    if kind == 'new':
      mi = op['model']
      if mi >= len(models):
        continue
      spec, mbytes = models[mi]
      shared = None
      if op['as'] == 'bytearray' and knobs.get('share_model_bytearray'):
        if mi not in shared_ba:
          shared_ba[mi] = bytearray(mbytes)
          owned.add('model:%d' % mi, shared_ba[mi], 'model')
        else:
          rec.probe('model_bytearray_shared')
        shared = shared_ba[mi]
      rarg, rcall = None, []
      init = op.get('recipe')
      if init and 'shipped' in init:
        rarg = editgen.shipped_path(init['shipped'])
        with open(rarg) as f:
          rcall = [{'op': 'load', 'literal': json.load(f)}]
      elif init and 'recipe' in init and init['recipe'] < len(shared_lists):
        rarg = shared_lists[init['recipe']]
        rcall = [{'op': 'load', 'literal': copy.deepcopy(rarg)}]
      try:
        qobj, arg = make_quantizer(op['as'], mbytes, world['models'][mi], rarg, sdir, shared)
      except Exception as e:  # pylint: disable=broad-except
        rec.event(step, 'new', 'raised:' + harness.exc_class(e))
        continue
      if op['as'] == 'bytearray' and shared is None:
        owned.add('model:q%d@%d' % (op['q'], step), arg, 'model')
      qs[op['q']] = {'obj': qobj, 'model': mi, 'calls': rcall, 'how': op['as'], 'result': None,
                     'path': arg if op['as'] == 'path' else None}
      rec.event(step, 'new', 'ok')
    elif kind in ('update', 'load'):
      Q = qs.get(op['q'])
      if Q is None:
        continue
      if kind == 'update':
        outcome, _ = editgen.apply_edit(Q['obj'], op)
        Q['calls'].append(op)
        if outcome.startswith('rejected'):
          rec.fault('rejected_update')
      else:
        if 'export_of' in op:
          other = qs.get(op['export_of'])
          if other is None:
            continue
          lst = other['obj'].get_quantization_recipe()
          owned.add('recipe:export@%d' % step, lst, 'recipe')
        elif 'recipe' in op:
          if op['recipe'] >= len(shared_lists):
            continue
          lst = shared_lists[op['recipe']]
          rec.probe('shared_recipe_list_loaded')
        elif 'shipped' in op:
          with open(editgen.shipped_path(op['shipped'])) as f:
            lst = json.load(f)
          owned.add('recipe:shipped@%d' % step, lst, 'recipe')
        else:
          lst = [A.rule_dict(*ru) for ru in op['rules']]
          owned.add('recipe:lit@%d' % step, lst, 'recipe')
        literal = copy.deepcopy(lst)
        if op.get('as_tuple') and isinstance(lst, list):
          lst = tuple(lst)          # any sequence of rule dicts is accepted
          literal = tuple(literal)  # the reference is given the same form
          owned.add('recipe:tuple@%d' % step, lst, 'recipe')
          rec.probe('recipe_as_tuple')
        try:
          Q['obj'].load_quantization_recipe(lst)
          outcome = 'ok'
        except Exception as e:  # pylint: disable=broad-except
          outcome = 'raised:' + harness.exc_class(e)
          rec.fault('torn_load')
        Q['calls'].append({'op': 'load', 'literal': literal})
      rec.event(step, kind, outcome)
    elif kind == 'calibrate':
      Q = qs.get(op['q'])
      if Q is None or op['data'] >= len(datasets):
        continue
      data = datasets[op['data']]
      chunk = data[op['lo']:op['hi']]
      fault = op.get('fault')
      fail_at = min(fault['at'], len(chunk)) if fault else None
      container = knobs.get('container', 'list')
      if container == 'list' and fault is None and op['lo'] == 0 and op['hi'] >= len(data):
        stream, fs = data, None            # the caller's own list object
      else:
        stream, fs = harness.make_stream(chunk, fail_at, container)
      prev = None
      if op.get('prev') and op['prev'] in calibs:
        prev = calibs[op['prev']]['obj']
        prev_name = 'calib:' + op['prev']
        rec.probe('calibrate_with_previous')
      ret = None
      try:
        ret = Q['obj'].calibrate(stream, previous_calibration_result=prev)
      except harness.SimulatedIOError:
        rec.fault('stream_fail')
        rec.event(step, 'calibrate', 'stream-failed')
      except Exception as e:  # pylint: disable=broad-except
        if fs is not None and fs.raised:
          rec.fault('stream_fail')
          rec.event(step, 'calibrate', 'stream-failed')
        else:
          rec.event(step, 'calibrate', 'raised:' + harness.exc_class(e))
      if ret is not None:
        calibs[op['out']] = {'obj': ret, 'pristine': pickle.dumps(ret, protocol=4),
                             'model': Q['model']}
        owned.add('calib:' + op['out'], ret, 'calibration-result')
        rec.event(step, 'calibrate', 'returned', core.digest(ret))
      call = 'calibrate()'
    elif kind == 'restore':
      # a calibration result restored from storage in another numeric form (json/npz round trip):
      # float64 arrays, Python floats or nested lists instead of float32 arrays
      src = calibs.get(op['src'])
      if src is None or op['src'] == 'EMPTY':
        continue
      import numpy as np
      def conv(v):
        a = np.asarray(v)
        if op['form'] == 'f64':
          return a.astype(np.float64) if a.dtype.kind == 'f' else a.copy()
        if op['form'] == 'pyfloat' and a.size == 1:
          return float(a.reshape(-1)[0])
        return a.astype(np.float64).tolist() if a.dtype.kind == 'f' else a.tolist()
      ret = {k: {sk: conv(sv) for sk, sv in v.items()} for k, v in pickle.loads(src['pristine']).items()}
      calibs[op['out']] = {'obj': ret, 'pristine': pickle.dumps(ret, protocol=4), 'model': src['model']}
      owned.add('calib:' + op['out'], ret, 'calibration-result')
      rec.probe('restored_statistics_' + op['form'])
      rec.event(step, 'restore', 'ok', core.digest(ret))
    elif kind == 'synth_stats':
      Q = qs.get(op['q'])
      if Q is None:
        continue
      spec, mbytes = models[Q['model']]
      if not getattr(spec, 'multi', False):
        continue
      by_sig = {}
      for di, d in enumerate(world['datasets']):
        if d['model'] == Q['model']:
          by_sig.setdefault(d.get('sig', 0), datasets[di])
      ret = synth_stats(spec, mbytes, by_sig)
      if op.get('py_floats'):
        # statistics handed in as plain Python numbers, as a user writing them by hand would
        ret = {k: {'min': float(v['min'].reshape(-1)[0]), 'max': float(v['max'].reshape(-1)[0])}
               for k, v in ret.items()}
        rec.probe('stats_as_python_floats')
      calibs[op['out']] = {'obj': ret, 'pristine': pickle.dumps(ret, protocol=4), 'model': Q['model']}
      owned.add('calib:' + op['out'], ret, 'calibration-result')
      rec.probe('multi_signature_stats')
      rec.event(step, 'synth_stats', 'ok', core.digest(ret))
    elif kind == 'quantize':
      Q = qs.get(op['q'])
      if Q is None:
        continue
      cid = op.get('calib')
      if cid == 'EMPTY' and 'EMPTY' not in calibs:
        empty = {}
        calibs['EMPTY'] = {'obj': empty, 'pristine': pickle.dumps(empty, protocol=4), 'model': None}
        owned.add('calib:EMPTY', empty, 'calibration-result')
        rec.fault('empty_stats')
      c = calibs.get(cid) if cid else None
      if cid and c is None:
        continue   # producer removed by shrinking
      arg = c['obj'] if c else None
      need = False
      try:
        need = Q['obj'].need_calibration
      except Exception:  # pylint: disable=broad-except
        pass
      if need and c is None:
        rec.fault('quantize_without_stats')
      if c is not None and c['model'] is not None and c['model'] != Q['model']:
        rec.fault('foreign_stats')
      rdig = core.digest(core.jcanon(Q['obj'].get_quantization_recipe()))
      if c is not None:
        seen = used_calibs.setdefault(cid, set())
        if seen and rdig not in seen:
          rec.probe('shared_stats_two_recipes')
        if seen:
          rec.nontrivial = True
        seen.add(rdig)
        prev_name = None
      n_quant[op['q']] = n_quant.get(op['q'], 0) + 1
      if n_quant[op['q']] >= 2:
        rec.probe('second_quantize_same_object')
        rec.nontrivial = True
      res = None
      try:
        res = Q['obj'].quantize(arg)
      except Exception as e:  # pylint: disable=broad-except
        out = 'raise:' + harness.exc_class(e)
      if res is not None:
        out = core.sha(res.quantized_model)
        Q['result'] = res
        owned.add('result:q%d@%d' % (op['q'], step), res.quantized_model, 'model')
      rec.event(step, 'quantize', out)
      mdesc = doc['world']['models'][Q['model']]
      rec.oblige('C14/history-dependence/' + ('exception' if out.startswith('raise:') else 'bytes'),
                 step,
                 {'model': mdesc, 'how': Q['how'], 'calls': pickle.dumps(Q['calls'], protocol=4),
                  'calib': c['pristine'] if c else None, 'threshold': thr},
                 out, 'quantize() on object %d at step %d (%d recipe calls, statistics %s)'
                 % (op['q'], step, len(Q['calls']), cid))
      call = 'quantize()'
    elif kind == 'validate':
      Q = qs.get(op['q'])
      if Q is None:
        continue
      td = None
      if op.get('data') is not None and op['data'] < len(datasets):
        mspec = models[Q['model']][0]
        if getattr(mspec, 'multi', False):
          key = mspec.sig_keys[world['datasets'][op['data']].get('sig', 0)]
          rec.probe('validate_secondary_signature' if key != mspec.sig_keys[0] else 'validate_primary_signature')
        else:
          key = signature_key(models[Q['model']][1])
        if key is not None:
          if op.get('none_key') and not getattr(mspec, 'multi', False):
            key = None     # single-signature shorthand accepted by the library
            rec.probe('validate_none_key')
          td = {key: datasets[op['data']]}
          owned.add('testdata@%d' % step, td, 'test-data')
      if Q['result'] is None:
        rec.fault('validate_before_quantize')
      try:
        if op.get('reference_kernel'):
          Q['obj'].validate(td, op.get('metric', 'mse'), use_reference_kernel=True)
          rec.probe('validate_reference_kernel')
        else:
          Q['obj'].validate(td, op.get('metric', 'mse'))
        rec.event(step, 'validate', 'ok')
      except Exception as e:  # pylint: disable=broad-except
        rec.event(step, 'validate', 'raised:' + harness.exc_class(e))
      call = 'validate()'
    elif kind == 'clobber_file':
      # the file the Quantizer was constructed from is overwritten by the user afterwards; the
      # model of the Quantizer is the one it was constructed with
      Q = qs.get(op['q'])
      if Q is None or not Q.get('path'):
        continue
      _, other = modelgen.get_model({'kind': 'gen', 'seed': 424242, 'max_ops': 2})
      with open(Q['path'], 'wb') as f:
        f.write(other)
      rec.fault('model_file_overwritten')
      rec.event(step, 'clobber_file', 'ok')
    elif kind == 'export':
      Q = qs.get(op['q'])
      if Q is None:
        continue
      rec.event(step, 'export', core.digest(core.jcanon(Q['obj'].get_quantization_recipe())))
    # ---- invariant after every step: nothing the caller owns has changed
    if not owned.check(rec, step, call, prev_name):
      break
    rec.state([core.digest(core.jcanon(Q['obj'].get_quantization_recipe())) for Q in qs.values()],
              sorted(calibs), [Q['result'] is not None for Q in qs.values()])
  return rec.result()


def reference(ob):
  """A fresh Quantizer in a fresh process given equal arguments."""
  import shutil
  import tempfile
  if ob.get('threshold') is not None:
    os.environ['AI_EDGE_QUANTIZER_VERIF_LARGE_MODEL_THRESHOLD'] = str(ob['threshold'])
  spec, mbytes = modelgen.get_model(ob['model'])
  root = os.environ.get('AEQ_SCRATCH') or tempfile.gettempdir()
  d = tempfile.mkdtemp(prefix='ref-', dir=root)
  try:
    q, _ = make_quantizer(ob['how'], mbytes, ob['model'], None, d)
    replay_recipe_calls(q, pickle.loads(ob['calls']))
    calib = pickle.loads(ob['calib']) if ob['calib'] is not None else None
    try:
      return core.sha(q.quantize(calib).quantized_model)
    except Exception as e:  # pylint: disable=broad-except
      return 'raise:' + harness.exc_class(e)
  finally:
    shutil.rmtree(d, ignore_errors=True)
