"""C11 — recipe resolution follows last-applicable-rule-wins.

Histories of add/load/export on two managers (behind the Quantizer facade),
refinement against sim.refmodel.RecipeModel after every step.
"""
from sim import alphabet as A
from sim import core
from sim import harness
from sim import refmodel

PROP = 'C11'
POLICY_CONFIGS = ['dynamic_wi8_afp32', 'dynamic_wi4_afp32', 'static_wi8_ai16', 'static_wi4_ai16',
                  'static_wi8_ai8', 'static_wi4_ai8', 'weightonly_wi8_afp32', 'weightonly_wi4_afp32']


def policy_json(variant):
  """The default policy, optionally with some operators removed from one config's list."""
  import json
  from ai_edge_quantizer import default_policy
  pol = json.loads(default_policy.DEFAULT_JSON_POLICY)
  if variant[0] == 'drop':
    _, cfgname, drop = variant
    if cfgname in pol['ops_per_config']:
      pol['ops_per_config'][cfgname] = [o for o in pol['ops_per_config'][cfgname] if o not in drop]
  return json.dumps(pol)


# ---------------------------------------------------------------- generation


def draw_rule(r, regexes, ops, p_good=0.65, p_star=None):
  algo = r.choices(A.ALGOS, [60, 12, 16, 6])[0]
  op = r.choice(ops)
  if algo == A.BOGUS and r.random() < 0.8:
    op = '*'
  if algo == A.FLOATCAST and r.random() < 0.7:
    op = r.choice(['FULLY_CONNECTED', 'CONV_2D', 'EMBEDDING_LOOKUP', '*'])
  if r.random() < p_good:
    cfg = r.choice(A.likely_good_configs(op, algo))
  else:
    cfg = r.choice(A.CONFIG_NAMES)
  return [r.choice(regexes), op, cfg, A.bogus_spelling(r, algo)]


def generate(rseed, tier='quick'):
  r = core.rng_for(rseed, 'trace')
  n_regex = r.choice([2, 2, 3, 3, 4, 5, 6])
  regexes = r.sample(A.GRID_REGEXES, n_regex)
  if r.random() < 0.6 and '.*' not in regexes:
    regexes[0] = '.*'
  n_sel = r.choice([2, 3, 3, 4, 5, 6, 8])
  ops = r.sample(A.ALL_OPS[1:], n_sel)
  if r.random() < 0.8:
    ops.append('*')
  if r.random() < 0.7 and 'FULLY_CONNECTED' not in ops:
    ops.append('FULLY_CONNECTED')
  knobs = {
      'p_good': r.choice([0.6, 0.75, 0.85, 0.95]),
      'two_managers': r.random() < 0.75,
      'facade': r.choice(['quantizer', 'quantizer', 'manager']),
      'policy_ops': r.random() < 0.35,
  }
  n = r.randint(3, 14 if tier == 'quick' else 20)
  trace = []
  for _ in range(n):
    m = 0 if not knobs['two_managers'] or r.random() < 0.6 else 1
    k = r.random()
    if k < 0.68:
      rg, op, cfg, algo = draw_rule(r, regexes, ops, knobs['p_good'])
      trace.append({'op': 'add', 'm': m, 'regex': rg, 'operation': op, 'config': cfg,
                    'algorithm': algo, 'spelling': r.choice(['enum', 'str'])})
      if r.random() < 0.3:
        trace[-1]['defaults'] = r.choice([True, 'kw'])
    elif k < 0.80:
      rules = [draw_rule(r, regexes, ops, 0.9) for _ in range(r.randint(0, 5))]
      if rules and r.random() < 0.35:
        # torn load: a rule that is certainly refused, at a random position
        bad = [r.choice(regexes), r.choice(['FULLY_CONNECTED', 'SOFTMAX', 'CUSTOM_OP']),
               r.choice(['bad_w16', 'bad_w2', 'bad_a16asym']), A.MINMAX]
        rules.insert(r.randrange(len(rules) + 1), bad)
      trace.append({'op': 'load', 'm': m, 'rules': rules})
    elif k < 0.86 and knobs['two_managers']:
      trace.append({'op': 'load', 'm': m, 'export_of': 1 - m})
    elif k < 0.90:
      trace.append({'op': 'load', 'm': m, 'shipped': r.choice(A.SHIPPED)})
    elif k < 0.95 and knobs['policy_ops']:
      # the support-check policy is process-global state that the check reads at resolution time
      if r.random() < 0.25:
        trace.append({'op': 'policy', 'm': m, 'variant': ['default']})
      else:
        cfgname = r.choice(POLICY_CONFIGS)
        drop = r.sample(ops, min(len(ops), r.randint(1, 3)))
        trace.append({'op': 'policy', 'm': m, 'variant': ['drop', cfgname, [o for o in drop if o != '*']]})
    else:
      trace.append({'op': 'export', 'm': m})
  probe_ops = sorted(set(o for o in ops if o != '*'))
  extra = [o for o in A.ALL_OPS[1:] if o not in probe_ops]
  probe_ops += r.sample(extra, min(3, len(extra)))
  return {
      'v': 1, 'property': PROP, 'run_seed': rseed, 'knobs': knobs,
      'world': {'probe_ops': probe_ops, 'probe_scopes': A.GRID_SCOPES},
      'ops': trace,
  }


# ---------------------------------------------------------------- execution


RULE_KEYS = ('regex', 'operation', 'algorithm_key', 'op_config')


def _export_key(recipe_list):
  """Canonical JSON-ish form of an exported recipe (enum -> value), restricted to the four
  documented keys of a rule so that an implementation may add fields of its own."""
  out = []
  for r in core.jcanon(recipe_list):
    if isinstance(r, dict):
      out.append({k: r[k] for k in RULE_KEYS if k in r})
    else:
      out.append(r)
  return out


def model_export(model):
  out = []
  for rule in model.rules():
    out.append({'regex': rule.regex, 'operation': rule.op, 'algorithm_key': rule.algo,
                'op_config': core.jcanon(rule.cfg.to_dict())})
  return out


class Mgr:
  """A real manager (behind a facade) paired with its reference model."""

  def __init__(self, facade, model_bytes):
    from ai_edge_quantizer import quantizer, recipe_manager, qtyping, algorithm_manager
    self.facade = facade
    if facade == 'quantizer':
      self.q = quantizer.Quantizer(model_bytes)
      self.rm = harness.recipe_manager_of(self.q)  # for probing only
    else:
      self.q = None
      self.rm = recipe_manager.RecipeManager()
    self.model = refmodel.RecipeModel(algorithm_manager.check_op_quantization_config,
                                      qtyping.OpQuantizationConfig)

  def add(self, regex, op, cfg, algo):
    if self.q is not None:
      self.q.update_quantization_recipe(regex, op, cfg, algo)
    else:
      self.rm.add_quantization_config(regex, op, cfg, algo)

  def load(self, rules):
    if self.q is not None:
      self.q.load_quantization_recipe(rules)
    else:
      self.rm.load_quantization_recipe(rules)

  def export(self):
    if self.q is not None:
      return self.q.get_quantization_recipe()
    return self.rm.get_quantization_recipe()


def resync_model(mgr, exported):
  """After a torn load: rebuild the model from the exported list (must be representable)."""
  from ai_edge_quantizer import qtyping
  mgr.model.clear()
  for rule in exported:
    cfg = qtyping.OpQuantizationConfig.from_dict(_tolerant(rule['op_config']))
    mgr.model.add(rule['regex'], rule['operation'], cfg, rule['algorithm_key'])


def _tolerant(d):
  """op_config dict -> dict from_dict accepts (independent of the C12 KeyError finding)."""
  d = dict(d)
  d.setdefault('weight_tensor_config', None)
  if d['weight_tensor_config'] is None:
    # from_dict cannot take None; build by hand
    pass
  return d


def cfg_from_dict(d):
  from ai_edge_quantizer import qtyping
  if d is None:
    return qtyping.OpQuantizationConfig()   # entry without op_config: the default config
  kw = dict(core.jcanon(d))
  for k in ('activation_tensor_config', 'weight_tensor_config'):
    if kw.get(k) is not None:
      kw[k] = qtyping.TensorQuantizationConfig(**kw[k])
  return qtyping.OpQuantizationConfig(**kw)


def resolve_real(rm, op, scope):
  try:
    key, cfg = rm.get_quantization_configs(op, scope)
    return ('ok', getattr(key, 'value', key), cfg)
  except Exception as e:  # pylint: disable=broad-except
    return ('raise', harness.exc_class(e), None)


def resolve_model(model, op, scope):
  try:
    key, cfg = model.resolve(op, scope)
    return ('ok', key, cfg)
  except Exception as e:  # pylint: disable=broad-except
    return ('raise', harness.exc_class(e), None)


def same(a, b):
  if a[0] != b[0] or a[1] != b[1]:
    return False
  if a[0] == 'raise':
    return True
  # frozen dataclasses compare by value; str-enums equal their string values
  return a[2] == b[2]


def probe_all(rec, step, mgrs, probe_ops, probe_scopes, purity=True):
  from ai_edge_quantizer import qtyping, recipe_manager
  for mi, mg in enumerate(mgrs):
    twin = None
    if purity:
      twin = recipe_manager.RecipeManager()
      try:
        for rule in mg.model.rules():
          twin.add_quantization_config(rule.regex, qtyping.TFLOperationName(rule.op),
                                       rule.cfg, rule.algo)
      except Exception as e:  # pylint: disable=broad-except
        rec.violate('C11/impure-resolution', step,
                    'manager %d: replaying its own accepted rules on a fresh manager raised %s'
                    % (mi, harness.exc_class(e)))
        twin = None
    before = mg.model.skips
    for op in probe_ops:
      eop = qtyping.TFLOperationName(op)
      for scope in probe_scopes:
        real = resolve_real(mg.rm, eop, scope)
        ref = resolve_model(mg.model, op, scope)
        rec.probe('queries')
        if not same(real, ref):
          rec.violate('C11/resolve-mismatch', step,
                      'manager %d (%s, %r): real=%s/%s model=%s/%s' % (
                          mi, op, scope, real[1], core.jcanon(real[2]) if real[2] else None,
                          ref[1], core.jcanon(ref[2]) if ref[2] else None))
          return
        if real[0] == 'ok' and real[1] != 'no_quantize':
          rec.probe('resolved_quantized')
        if twin is not None:
          t = resolve_real(twin, eop, scope)
          if not same(real, t):
            rec.violate('C11/impure-resolution', step,
                        'manager %d (%s, %r): live manager and a fresh manager holding the '
                        'same rule list disagree: %s vs %s' % (mi, op, scope, real[1], t[1]))
            return
    again = resolve_real(mg.rm, qtyping.TFLOperationName(probe_ops[0]), probe_scopes[-1])
    again2 = resolve_real(mg.rm, qtyping.TFLOperationName(probe_ops[0]), probe_scopes[-1])
    if not same(again, again2):
      rec.violate('C11/impure-resolution', step, 'repeated query differs')
    if mg.model.skips > before:
      rec.probe('rule_skipped_at_resolution')


def execute(doc):
  from sim import modelgen
  rec = harness.Recorder(doc)
  knobs = doc['knobs']
  _, mbytes = modelgen.get_model({'kind': 'corpus', 'name': 'single_fc'})
  mgrs = [Mgr(knobs.get('facade', 'quantizer'), mbytes) for _ in range(2)]
  probe_ops, probe_scopes = doc['world']['probe_ops'], doc['world']['probe_scopes']
  accepted = 0
  policy_changed = False
  for step, op in enumerate(doc['ops']):
    mg = mgrs[op['m']]
    other_before = core.digest(_export_key(mgrs[1 - op['m']].export()))
    if op['op'] == 'add':
      before = core.digest(_export_key(mg.export()))
      cfg_err = None
      try:
        cfg = A.mk_config(op['config'], op.get('spelling', 'enum'))
      except ValueError as e:
        cfg, cfg_err = None, e
      if cfg_err is not None:
        rec.event(step, 'add', 'config-invalid')
        continue
      aop = A.mk_op(op['operation'], op.get('spelling', 'enum'))
      algo = A.mk_algo(op['algorithm'], op.get('spelling', 'enum'))
      try:
        if op.get('defaults'):
          from sim import editgen
          editgen.call_update(mg.q.update_quantization_recipe if mg.q is not None
                              else mg.rm.add_quantization_config, op, cfg, op.get('spelling', 'enum'))
          rec.probe('call_with_default_arguments')
        else:
          mg.add(op['regex'], aop, cfg, algo)
        outcome = 'accepted'
      except Exception as e:  # pylint: disable=broad-except
        outcome = 'rejected:' + harness.exc_class(e)
      if outcome == 'accepted':
        how = mg.model.add(op['regex'], op['operation'], cfg, op['algorithm'])
        rec.probe('add_' + how)
        if op['algorithm'] in (A.BOGUS, A.BOGUS_UPPER):
          rec.fault('unregistered_algorithm_accepted')
        accepted += 1
        rec.event(step, 'add', 'accepted', how)
      else:
        rec.fault('rejected_update')
        after = core.digest(_export_key(mg.export()))
        rec.event(step, 'add', outcome)
        if after != before:
          rec.violate('C11/rejected-op-had-effect', step,
                      'exported rule list changed across a refused add (%s)' % outcome)
    elif op['op'] == 'load':
      if 'rules' in op:
        rules = [A.rule_dict(*ru) for ru in op['rules']]
      elif 'export_of' in op:
        rules = mgrs[op['export_of']].export()
      else:
        import json, os
        from ai_edge_quantizer import recipe_manager  # noqa
        import ai_edge_quantizer
        path = os.path.join(os.path.dirname(ai_edge_quantizer.__file__), 'recipes',
                            op['shipped'] + '.json')
        with open(path) as f:
          rules = json.load(f)
      rules_key = core.digest(_export_key(rules))
      try:
        mg.load(rules)
        outcome = 'ok'
      except Exception as e:  # pylint: disable=broad-except
        outcome = 'raised:' + harness.exc_class(e)
      if core.digest(_export_key(rules)) != rules_key:
        rec.probe('load_mutated_argument')
      if outcome == 'ok':
        mg.model.clear()
        for ru in rules:
          mg.model.add(ru['regex'], ru['operation'], cfg_from_dict(ru.get('op_config')),
                       ru['algorithm_key'])
        accepted += 1
        rec.event(step, 'load', 'ok', len(rules))
      else:
        # Atomicity of a failed load is unspecified: re-synchronise from the export.
        rec.fault('torn_load')
        exported = mg.export()
        mg.model.clear()
        try:
          for ru in exported:
            mg.model.add(ru['regex'], ru['operation'], cfg_from_dict(ru['op_config']),
                         ru['algorithm_key'])
        except Exception as e:  # pylint: disable=broad-except
          rec.violate('C11/resolve-mismatch', step,
                      'export after a failed load is not a representable rule list: %s'
                      % harness.exc_class(e))
        rec.event(step, 'load', outcome, len(exported))
    elif op['op'] == 'policy':
      import os
      from ai_edge_quantizer import algorithm_manager, default_policy
      text = policy_json(op['variant'])
      try:
        if mg.q is not None:
          path = os.path.join(rec.scratch(), 'policy-%d.json' % step)
          with open(path, 'w') as f:
            f.write(text)
          mg.q.load_config_policy(path)
        else:
          algorithm_manager.register_config_check_policy_func(
              algorithm_manager.AlgorithmName.MIN_MAX_UNIFORM_QUANT,
              default_policy.update_default_config_policy(text))
        rec.event(step, 'policy', 'ok', op['variant'][0])
        rec.fault('policy_changed')
        policy_changed = True
      except Exception as e:  # pylint: disable=broad-except
        rec.event(step, 'policy', 'raised:' + harness.exc_class(e))
    elif op['op'] == 'export':
      rec.event(step, 'export', 'ok')
    # ---- invariants after every step
    exp_real = _export_key(mg.export())
    exp_model = model_export(mg.model)
    if core.digest(exp_real) != core.digest(exp_model):
      rec.violate('C11/resolve-mismatch', step,
                  'exported rule list differs from the model: real=%s model=%s'
                  % ([(x['regex'], x['operation'], x['algorithm_key']) for x in exp_real],
                     [(x['regex'], x['operation'], x['algorithm_key']) for x in exp_model]))
    if core.digest(_export_key(mgrs[1 - op['m']].export())) != other_before:
      rec.violate('C11/impure-resolution', step,
                  'an operation on manager %d changed the rules of manager %d'
                  % (op['m'], 1 - op['m']))
    # After a policy change an accepted rule may legitimately be refused when re-added, so a fresh
    # manager cannot be built by replaying adds: the purity twin is skipped from then on (narrow,
    # deliberate); the refinement check against the model and the repeated-query check remain.
    probe_all(rec, step, mgrs, probe_ops, probe_scopes, purity=not policy_changed)
    rec.state([core.digest(_export_key(m.export())) for m in mgrs])
    if accepted >= 2:
      rec.nontrivial = True
    if rec.violations:
      break
  return rec.result()


def reference(ob):
  raise NotImplementedError('C11 has no cross-process obligations')
