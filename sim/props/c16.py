"""C16 — large-model (external buffer) serialization equals the in-place form.

The "buggify" idiom: the size threshold is lowered through the guarded hook so that the
otherwise unreachable serializer runs under every generated (model, recipe) history.
Each quantize is executed with the knob off and with the knob on; the two byte strings
are compared structurally (raw flatbuffer accessors), as object trees, and behaviourally
(LiteRT interpreter, in forked grandchildren so that a native abort is an outcome).
"""
import copy
import os
import pickle
import signal

import numpy as np

from sim import alphabet as A
from sim import core
from sim import editgen
from sim import harness
from sim import modelgen

PROP = 'C16'
KNOB = 'AI_EDGE_QUANTIZER_VERIF_LARGE_MODEL_THRESHOLD'
EXTRA_CORPUS = ('two_signatures', 'weight_sharing_fcs', 'single_add1_constant_input',
                'single_mul2_constant_input', 'single_sub1_constant_input', 'bmm_constant_input')


def generate(rseed, tier='quick'):
  r = core.rng_for(rseed, 'trace')
  if r.random() < 0.7:
    mdesc = {'kind': 'gen', 'seed': r.randrange(1 << 30), 'max_ops': r.randint(1, 8)}
    if r.random() < 0.12:
      # unusual but legal input: a constant buffer whose data vector is present and empty
      mdesc['empty_buffer'] = r.choice(['tensor', 'orphan'])
    if r.random() < 0.3:
      # metadata entries as the TF converter writes them (last), or, as other exporters and
      # post-processing tools do, ahead of the tensor buffers
      mdesc['metadata'] = r.choice(['first', 'last'])
  else:
    mdesc = {'kind': 'corpus', 'name': r.choice(modelgen.CORPUS + EXTRA_CORPUS)}
  spec, _ = modelgen.get_model(mdesc)
  ddesc = modelgen.draw_dataset_desc(r, 0, r.randint(1, 2))
  pool = editgen.regex_pool(r, spec, escape=mdesc['kind'] == 'corpus')
  ops, rules = [], []
  for rnd in range(r.randint(1, 3)):
    for _ in range(r.randint(1, 3)):
      e = editgen.draw_edit(r, spec, pool, 0, rules, faults=False)
      if e['op'] == 'update' and e['algorithm'] == A.MINMAX and r.random() < 0.5:
        # bias towards weight-only / dynamic / int4 so that buffer sizes and packings vary
        e['config'] = r.choice(['wo4_t', 'wo4_ch', 'drq4_ch', 'wo8_ch', 'drq8_ch', 'wo8_asym', 'a8w4'])
      ops.append(e)
      if e['op'] == 'load':
        rules = editgen.abstract_rules(e)
      else:
        rules += editgen.abstract_rules(e)
    ops.append({'op': 'quantize', 'q': 0,
                'threshold': r.choices(['zero', 'below', 'equal', 'huge', 'half'], [5, 3, 2, 1, 1])[0]})
  knobs = {'input_in_large_form': r.random() < 0.15}
  return {'v': 1, 'property': PROP, 'run_seed': rseed, 'knobs': knobs,
          'world': {'models': [mdesc], 'datasets': [ddesc]}, 'ops': ops}


# ------------------------------------------------------------------ structural oracle


def pad16(n):
  return (n + 15) // 16 * 16


def obj_digest(o, skip=()):
  """Canonical digest of a flatbuffer object-API tree."""
  def walk(x):
    if x is None or isinstance(x, (bool, int, float, str, bytes)):
      return x
    if isinstance(x, np.ndarray):
      return x
    if isinstance(x, np.generic):
      return x.item()
    if isinstance(x, (list, tuple)):
      return [walk(v) for v in x]
    if hasattr(x, '__dict__'):
      return {'__t': type(x).__name__,
              **{k: walk(v) for k, v in sorted(vars(x).items()) if k not in skip}}
    return repr(x)
  return core.digest(walk(o))


def structural(rec, step, small, large):
  """Oracles (a) and (b). Returns True if the large form is structurally sound."""
  from ai_edge_litert import schema_py_generated as sch
  from tensorflow.lite.tools import flatbuffer_utils
  ms = sch.Model.GetRootAsModel(bytes(small), 0)
  ml = sch.Model.GetRootAsModel(bytes(large), 0)
  if ms.BuffersLength() != ml.BuffersLength():
    rec.violate('C16/fields-differ', step, 'buffer count differs: %d vs %d'
                % (ms.BuffersLength(), ml.BuffersLength()))
    return False
  spans = []
  n_ext = 0
  for i in range(ms.BuffersLength()):
    bs, bl = ms.Buffers(i), ml.Buffers(i)
    data = None if bs.DataIsNone() else bs.DataAsNumpy().tobytes()
    off, size = bl.Offset(), bl.Size()
    if data is None or len(data) == 0:
      if not bl.DataIsNone() and bl.DataLength() > 0:
        rec.violate('C16/bytes-differ', step, 'buffer %d has no data in the ordinary form but has in the large form' % i)
        return False
      if off != 0 or size != 0:
        # an empty buffer must stay empty
        if size != 0:
          rec.violate('C16/bytes-differ', step,
                      'buffer %d is empty in the ordinary form but offset=%d size=%d in the large form' % (i, off, size))
          return False
      continue
    n_ext += 1
    if not bl.DataIsNone() and bl.DataLength() > 0:
      # still embedded: allowed only if identical
      if bl.DataAsNumpy().tobytes() != data:
        rec.violate('C16/bytes-differ', step, 'buffer %d embedded data differs' % i)
        return False
      continue
    if off % 16 != 0:
      rec.violate('C16/misaligned', step, 'buffer %d: offset %d is not 16-byte aligned' % (i, off))
      return False
    if off < 16 or off + size > len(large):
      rec.violate('C16/out-of-bounds', step,
                  'buffer %d: offset=%d size=%d, file length %d' % (i, off, size, len(large)))
      return False
    if size != len(data):
      rec.violate('C16/bytes-differ', step,
                  'buffer %d: size %d but the ordinary form embeds %d bytes' % (i, size, len(data)))
      return False
    if bytes(large[off:off + size]) != data:
      rec.violate('C16/bytes-differ', step,
                  'buffer %d: bytes at [%d,%d) differ from the data embedded by the ordinary path' % (i, off, off + size))
      return False
    spans.append((off, off + size, i))
  spans.sort()
  for (a0, a1, i), (b0, b1, j) in zip(spans, spans[1:]):
    if b0 < a1:
      rec.violate('C16/overlap', step, 'buffers %d [%d,%d) and %d [%d,%d) overlap' % (i, a0, a1, j, b0, b1))
      return False
  if len(large) % 16 != 0 and spans:
    rec.probe('large_len_not_multiple_of_16')
  # the flatbuffer part must end before the first external buffer
  tl = flatbuffer_utils.read_model_from_bytearray(bytearray(large))
  ts = flatbuffer_utils.read_model_from_bytearray(bytearray(small))
  if spans:
    shell = copy.deepcopy(tl)
    for b, (bo) in zip(shell.buffers, range(len(shell.buffers))):
      raw = ml.Buffers(bo)
      if raw.DataIsNone() or raw.DataLength() == 0:
        b.data = None
        b.offset, b.size = raw.Offset(), raw.Size()
    flat_len = len(flatbuffer_utils.convert_object_to_bytearray(shell))
    if spans[0][0] < flat_len:
      rec.violate('C16/overlap', step,
                  'first external buffer at offset %d lies inside the flatbuffer part (%d bytes)'
                  % (spans[0][0], flat_len))
      return False
    rec.probe('external_buffers', len(spans))
  # (b) object trees equal in every other field; external data resolved by the reader
  for i, (b_s, b_l) in enumerate(zip(ts.buffers, tl.buffers)):
    ds = None if b_s.data is None else bytes(b_s.data)
    dl = None if b_l.data is None else bytes(b_l.data)
    if (ds or b'') != (dl or b''):
      rec.violate('C16/bytes-differ', step,
                  'buffer %d: the reader resolves different data for the large form (%s vs %s bytes)'
                  % (i, None if dl is None else len(dl), None if ds is None else len(ds)))
      return False
  for m in (ts, tl):
    for b in m.buffers:
      b.data, b.offset, b.size = None, 0, 0
  if obj_digest(ts) != obj_digest(tl):
    rec.violate('C16/fields-differ', step, 'object trees differ in a field other than buffer data/offset/size')
    return False
  return True


# ------------------------------------------------------------------ behavioural oracle


def run_interpreter(model_bytes, spec, sample):
  from ai_edge_litert import interpreter as tfl
  it = tfl.Interpreter(model_content=bytes(model_bytes),
                       experimental_op_resolver_type=tfl.OpResolverType.BUILTIN_WITHOUT_DEFAULT_DELEGATES)
  it.allocate_tensors()
  by_name = {spec.tensors[i]['name']: sample[nm] for nm, i in zip(spec.sig_in, spec.inputs)}
  rng = np.random.default_rng(7)
  for d in it.get_input_details():
    x = by_name.get(d['name'])
    shape = tuple(d['shape'])
    if x is None:
      x = rng.normal(0, 1, size=shape).astype(np.float32)
    if d['dtype'] == np.float32:
      v = np.asarray(x, dtype=np.float32).reshape(shape)
    elif d['dtype'] in (np.int8, np.int16):
      sc, zp = d['quantization']
      sc = sc or 1.0
      info = np.iinfo(d['dtype'])
      v = np.clip(np.round(np.asarray(x, dtype=np.float64) / sc) + zp, info.min, info.max).astype(d['dtype']).reshape(shape)
    else:
      v = np.asarray(x).astype(d['dtype']).reshape(shape)
    it.set_tensor(d['index'], v)
  it.invoke()
  outs = [it.get_tensor(d['index']) for d in it.get_output_details()]
  finite = all(np.all(np.isfinite(o)) for o in outs if o.dtype.kind == 'f')
  return core.digest(outs) + ('' if finite else ':nonfinite')


def contained(fn):
  """Run fn() in a forked grandchild; returns its value, 'raise:<T>' or 'abort:<signal>'."""
  r, w = os.pipe()
  pid = os.fork()
  if pid == 0:
    try:
      os.close(r)
      signal.alarm(30)
      try:
        out = ('ok', fn())
      except Exception as e:  # pylint: disable=broad-except
        out = ('raise', harness.exc_class(e))
      os.write(w, pickle.dumps(out))
    finally:
      os._exit(0)
  os.close(w)
  chunks = []
  while True:
    b = os.read(r, 65536)
    if not b:
      break
    chunks.append(b)
  os.close(r)
  _, st = os.waitpid(pid, 0)
  if os.WIFSIGNALED(st):
    return 'abort:%d' % os.WTERMSIG(st)
  try:
    kind, val = pickle.loads(b''.join(chunks))
  except Exception:  # pylint: disable=broad-except
    return 'abort:garbled'
  return val if kind == 'ok' else 'raise:' + val


def layout_variant(model_bytes, interleave=False):
  """The same model with a different byte layout: buffer table reversed (buffer 0 stays), tensor
  and metadata buffer indices remapped; with interleave, an unreferenced 96-byte buffer of 0xA5
  bytes (float32 -3.0e-16 / float16 -0.0201) follows every real buffer instead."""
  from tensorflow.lite.tools import flatbuffer_utils
  from ai_edge_litert import schema_py_generated as sch
  m = flatbuffer_utils.read_model_from_bytearray(bytearray(model_bytes))
  n = len(m.buffers)
  if interleave:
    new_buffers, inv = [], {}
    for old, b in enumerate(m.buffers):
      inv[old] = len(new_buffers)
      new_buffers.append(b)
      if old > 0:
        pad = sch.BufferT()
        pad.data = np.full(96, 0xA5, dtype=np.uint8)
        new_buffers.append(pad)
    m.buffers = new_buffers
    perm = None
  else:
    perm = [0] + list(range(n - 1, 0, -1))           # new index -> old index
    inv = {old: new for new, old in enumerate(perm)}
    m.buffers = [m.buffers[old] for old in perm]
  for sg in m.subgraphs:
    for t in sg.tensors:
      t.buffer = inv[t.buffer]
  for md in (m.metadata or []):
    md.buffer = inv.get(md.buffer, md.buffer)
  return bytes(flatbuffer_utils.convert_object_to_bytearray(m))


def float16_only_feeds_dequantize(model_bytes):
  """A float16 constant must reach its consumer through a DEQUANTIZE. On this tree the quantizer
  sometimes leaves the consumer wired to the float16 tensor itself (seen when the consumer's
  activation operand is also a graph output): the kernel then reads the 2-byte weights as 4-byte
  floats, past the end of the buffer. That is an ill-typed model (C01/C03), equally ill-typed in
  both forms, and its runtime result is not a function of the model."""
  from tensorflow.lite.tools import flatbuffer_utils
  from ai_edge_litert import schema_py_generated as sch
  m = flatbuffer_utils.read_model_from_bytearray(bytearray(model_bytes))
  for sg in m.subgraphs:
    for o in sg.operators:
      if m.operatorCodes[o.opcodeIndex].builtinCode == sch.BuiltinOperator.DEQUANTIZE:
        continue
      for i in o.inputs:
        if i != -1 and sg.tensors[i].type == sch.TensorType.FLOAT16:
          return False
  return True


def skip_checks_in_recipe(q):
  try:
    return any(bool((r.get('op_config') or {}).get('skip_checks')) for r in q.get_quantization_recipe())
  except Exception:  # pylint: disable=broad-except
    return False


def valid_execution_order(model_bytes):
  """Every operand is a graph input, a constant/variable, or produced by an earlier operator."""
  from tensorflow.lite.tools import flatbuffer_utils
  m = flatbuffer_utils.read_model_from_bytearray(bytearray(model_bytes))
  for sg in m.subgraphs:
    have = set(int(i) for i in sg.inputs)
    for i, t in enumerate(sg.tensors):
      if m.buffers[t.buffer].data is not None or t.isVariable:
        have.add(i)
    for o in sg.operators:
      for i in o.inputs:
        if i != -1 and int(i) not in have:
          return False
      have.update(int(i) for i in o.outputs)
  return True


# ------------------------------------------------------------------ execution


def constants_total(small):
  from ai_edge_litert import schema_py_generated as sch
  m = sch.Model.GetRootAsModel(bytes(small), 0)
  tot, odd4 = 0, False
  for i in range(m.BuffersLength()):
    b = m.Buffers(i)
    if not b.DataIsNone():
      tot += b.DataLength()
  return tot


def quantize_with_knob(q, calib, value):
  old = os.environ.get(KNOB)
  try:
    if value is None:
      os.environ.pop(KNOB, None)
    else:
      os.environ[KNOB] = str(value)
    return bytes(q.quantize(copy.deepcopy(calib)).quantized_model)
  finally:
    if old is None:
      os.environ.pop(KNOB, None)
    else:
      os.environ[KNOB] = old


def execute(doc):
  from ai_edge_quantizer import quantizer
  rec = harness.Recorder(doc)
  mdesc = doc['world']['models'][0]
  spec, mbytes = modelgen.get_model(mdesc)
  data = modelgen.gen_dataset(spec, doc['world']['datasets'][0])
  if doc['knobs'].get('input_in_large_form'):
    # Models above 2 GB arrive with their constants already stored after the flatbuffer. Produce
    # such an input from the float model with the library itself: a recipe that matches nothing,
    # pushed through the large-model path. (If that fails the run continues on the plain model.)
    try:
      q0 = quantizer.Quantizer(bytearray(mbytes))
      q0.update_quantization_recipe('nomatch_zzz_input', 'BATCH_MATMUL', A.mk_config('drq8_ch'))
      ext = quantize_with_knob(q0, None, 0)
      if constants_total(quantize_with_knob(q0, None, None)) > 0:
        mbytes = bytearray(ext)
        rec.probe('input_in_large_form')
    except Exception as e:  # pylint: disable=broad-except
      rec.event(-1, 'input-large-form', 'raised:' + harness.exc_class(e))
  q = quantizer.Quantizer(bytearray(mbytes))
  for step, op in enumerate(doc['ops']):
    if op['op'] in ('update', 'load'):
      out, _ = editgen.apply_edit(q, op)
      rec.event(step, op['op'], out)
      continue
    if op['op'] != 'quantize':
      continue
    calib = None
    try:
      if q.need_calibration:
        calib = q.calibrate(data)
      small = quantize_with_knob(q, calib, None)
    except Exception as e:  # pylint: disable=broad-except
      rec.event(step, 'quantize', 'raised:' + harness.exc_class(e))
      continue
    total = constants_total(small)
    th = {'zero': 0, 'below': total - 1, 'equal': total, 'huge': 2**31, 'half': total // 2}[op['threshold']]
    expect_large = total > th
    try:
      large = quantize_with_knob(q, calib, th)
    except Exception as e:  # pylint: disable=broad-except
      rec.violate('C16/fields-differ', step,
                  'quantize() raises %s with the threshold lowered to %d but succeeds on the ordinary path'
                  % (harness.exc_class(e), th))
      rec.event(step, 'quantize', 'large-raised')
      break
    if op['threshold'] == 'below':
      rec.probe('threshold_boundary_below')
    if op['threshold'] == 'equal':
      rec.probe('threshold_boundary_equal')
    if total == 0:
      rec.probe('no_constants')
    if not expect_large:
      rec.probe('hook_inert')
      if large != small:
        rec.violate('C16/hook-not-inert', step,
                    'threshold %d >= constants %d but the bytes differ from the knob-off bytes' % (th, total))
        break
      rec.event(step, 'quantize', 'inert', core.sha(small))
      continue
    rec.fault('large_path')
    rec.nontrivial = True
    if mdesc.get('empty_buffer'):
      rec.probe('present_but_empty_buffer')
    if mdesc.get('metadata'):
      rec.probe('metadata_buffers_' + mdesc['metadata'])
    _probe_int4(rec, small)
    if not structural(rec, step, small, large):
      rec.event(step, 'quantize', 'structural-violation')
      break
    sample = data[0]
    if not valid_execution_order(small) or not float16_only_feeds_dequantize(small):
      # Operators out of execution order (C01's business, seen on this tree when a QUANTIZE
      # or DEQUANTIZE is inserted next to a graph output): the runtime then reads tensors
      # before they are written and its outputs are not a function of the model. Both
      # forms carry the same defect (the trees are equal); no behavioural comparison.
      rec.probe('malformed_order_skipped' if not valid_execution_order(small) else 'ill_typed_float16_skipped')
      rec.event(step, 'quantize', 'large-ok', core.sha(small), len(large) - len(small))
      rec.state(core.sha(small), th)
      continue
    a = contained(lambda: run_interpreter(small, spec, sample))
    a2 = contained(lambda: run_interpreter(small, spec, sample))
    if str(a).endswith(':nonfinite'):
      # NaN/Inf out of finite inputs and small finite weights: the ordinary model itself computes
      # garbage (in every case seen: a kernel reading past an ill-typed operand); not comparable.
      rec.probe('ordinary_form_nonfinite_skipped')
      rec.event(step, 'quantize', 'large-ok', core.sha(small), len(large) - len(small))
      rec.state(core.sha(small), th)
      continue
    if a == a2:
      # The comparison of the two forms presupposes that the runtime's result is a function of
      # the model. For ill-typed outputs (C01/C03 defects of this tree, e.g. a CONV_2D left reading
      # its float16 weights directly) or unsupported skip_checks configs the kernels read past their
      # buffers, and the result depends on what lies behind them, i.e. on the byte layout. Probe:
      # the same ordinary model with its buffer table permuted must give the same outputs.
      variant = layout_variant(small)
      av = contained(lambda: run_interpreter(variant, spec, sample))
      if av == a:
        variant2 = layout_variant(small, interleave=True)
        av = contained(lambda: run_interpreter(variant2, spec, sample))
      if av != a:
        rec.probe('runtime_layout_sensitive_skipped')
        rec.event(step, 'quantize', 'large-ok', core.sha(small), len(large) - len(small))
        rec.state(core.sha(small), th)
        continue
    if a != a2:
      rec.probe('runtime_nondeterministic_skipped')
      rec.event(step, 'quantize', 'large-ok', core.sha(small), len(large) - len(small))
      rec.state(core.sha(small), th)
      continue
    b = contained(lambda: run_interpreter(large, spec, sample))
    if a != b:
      # confirm: the ordinary form must be stable and the large form must differ again
      a3 = contained(lambda: run_interpreter(small, spec, sample))
      b2 = contained(lambda: run_interpreter(large, spec, sample))
      if a3 != a:
        rec.probe('runtime_nondeterministic_skipped')
        rec.event(step, 'quantize', 'large-ok', core.sha(small), len(large) - len(small))
        continue
      if b2 != a and skip_checks_in_recipe(q):
        # skip_checks forces configs the runtime does not support (e.g. 16-bit weights on a hybrid
        # CONV_2D: the kernel reads past the 2-byte weights as if they were wider). What the
        # runtime then reads depends on what happens to lie behind the buffer, i.e. on the layout,
        # which legitimately differs between the two forms. (a), (b), (d) still hold for these.
        rec.probe('runtime_differs_under_skip_checks')
        rec.event(step, 'quantize', 'large-ok', core.sha(small), len(large) - len(small))
        continue
      fails = lambda x: str(x).startswith(('raise', 'abort'))
      if b2 != a and not (fails(a) or fails(b) or fails(b2)):
        # Both forms load and run, the structural oracles have just established that the two files
        # decode to the identical model (same bytes for every buffer, equal trees) - yet the
        # numbers differ, stably. On the unchanged tree every such event (five in ~4 million
        # histories) was traced to a kernel reading outside the model description (ill-typed or
        # unsupported operands, a per-tensor scale read as per-channel): the result then depends
        # on the byte layout, which is exactly what differs between the forms. Not attributable to
        # the serializer, and not decidable from here; counted, not reported.
        rec.probe('runtime_numbers_differ_for_identical_models')
        rec.event(step, 'quantize', 'large-ok', core.sha(small), len(large) - len(small))
        continue
      if b2 != a:
        rec.violate('C16/runtime-differs', step,
                    'the interpreter accepts one form only - ordinary form (3 runs): %s; large form: %s, %s'
                    % (a, b, b2))
        rec.event(step, 'quantize', 'runtime-differs')
        break
      rec.probe('large_form_unstable_once')
    rec.probe('runtime_compared')
    if str(a).startswith(('raise', 'abort')):
      rec.probe('both_forms_fail_to_run')
    rec.event(step, 'quantize', 'large-ok', core.sha(small), len(large) - len(small))
    rec.state(core.sha(small), th)
  return rec.result()


def _probe_int4(rec, small):
  from tensorflow.lite.tools import flatbuffer_utils
  from ai_edge_litert import schema_py_generated as sch
  m = flatbuffer_utils.read_model_from_bytearray(bytearray(small))
  for sg in m.subgraphs:
    for t in sg.tensors:
      if t.type == sch.TensorType.INT4:
        n = int(np.prod(t.shape)) if t.shape is not None else 0
        rec.probe('int4_buffers')
        if n % 2 == 1:
          rec.probe('odd_int4_tail')
  sizes = [len(b.data) for b in m.buffers if b.data is not None]
  if any(s % 16 for s in sizes):
    rec.probe('buffer_size_not_multiple_of_16')
  if any(s < 16 for s in sizes):
    rec.probe('buffer_smaller_than_16')


def reference(ob):
  raise NotImplementedError('C16 has no cross-process obligations')
