"""Model-aware recipe edits shared by C12 / C14 / C16 / C09 trace generators.

Pure functions of (PRNG, model spec): no library behaviour is consulted.
"""
import re

from sim import alphabet as A

WEIGHTED_OPS = ('FULLY_CONNECTED', 'CONV_2D', 'DEPTHWISE_CONV_2D', 'BATCH_MATMUL',
                'EMBEDDING_LOOKUP', 'CONV_2D_TRANSPOSE')


def regex_pool(r, spec, escape=False):
  names = [n for sc in spec.scopes() for n in sc]
  esc = re.escape if escape else (lambda s: s)
  pool = ['.*']
  if names:
    for n in r.sample(names, min(3, len(names))):
      pool.append(esc(n))
    prefixes = sorted(set(n.split('/')[0] + '/' for n in names if '/' in n))
    for p in prefixes[:3]:
      pool.append(esc(p))
      pool.append('^' + esc(p))
    kinds = sorted(set(re.sub(r'[^a-z_]', '', n.split('/')[-1].split('_')[0]) for n in names))
    for k in kinds[:3]:
      if k:
        pool.append(k)
    if len(names) >= 2:
      a, b = r.sample(names, 2)
      pool.append(esc(a) + '|' + esc(b))
    # a full name written with '.' where the name has '/', '_' or ':' (plain-looking wildcard regex)
    dotted = re.sub(r'[/_:;]', '.', r.choice(names))
    if dotted not in pool and not escape:
      pool.append(dotted)
  pool.append('nomatch_zzz')
  return pool


def good_config_for(r, op, algo):
  if algo == A.FLOATCAST:
    return 'fp16'
  if algo == A.NOQ:
    return r.choice(A.GOOD_FOR[A.NOQ])
  if op in WEIGHTED_OPS:
    return r.choice(A.STATIC_CONFIGS[:4] + A.WEIGHT_CONFIGS + ['a8w8', 'a8w8'])
  if op == '*':
    return r.choice(A.STATIC_CONFIGS[:4] + A.WEIGHT_CONFIGS + ['a8w8'])
  return r.choice(['a8w8', 'a8w8_t', 'a8sw8', 'a16w8'])


def draw_rule(r, spec, pool, p_good=0.85, static_bias=0.5):
  present = spec.qnames_present() or ['FULLY_CONNECTED']
  k = r.random()
  if k < 0.35:
    op = '*'
  elif k < 0.85:
    op = r.choice(present)
  elif k < 0.93:
    op = r.choice(['INPUT', 'OUTPUT'])
  else:
    op = r.choice([o for o in A.ALL_OPS[1:] if o not in present])
  algo = r.choices([A.MINMAX, A.FLOATCAST, A.NOQ, A.BOGUS], [70, 8, 18, 4])[0]
  if algo == A.FLOATCAST and op not in WEIGHTED_OPS and op != '*':
    algo = A.MINMAX
  if algo == A.BOGUS:
    op = '*'
  if r.random() < p_good:
    cfg = good_config_for(r, op, algo)
    if algo == A.MINMAX and r.random() < static_bias:
      cfg = r.choice(['a8w8', 'a8w8', 'a8w8_t', 'a16w8', 'a8sw8'])
  else:
    cfg = r.choice(A.CONFIG_NAMES)
  if op == '*' and algo == A.MINMAX and r.random() < 0.08:
    cfg = r.choice(A.ODD_CONFIGS)
  if op == 'FULLY_CONNECTED' and algo == A.MINMAX and r.random() < 0.12:
    cfg = r.choice(A.BLOCKWISE_RUNNABLE)
  regex = r.choice(pool) if r.random() < 0.55 else '.*'
  return [regex, op, cfg, A.bogus_spelling(r, algo)]


def draw_edit(r, spec, pool, q, rules_so_far, faults=True):
  """One recipe edit operation on object q. rules_so_far: accepted-looking rules (abstract)."""
  k = r.random()
  sp = r.choice(['enum', 'enum', 'str'])
  if not rules_so_far and k < 0.55:
    # start with a whole-model rule
    algo = r.choices([A.MINMAX, A.FLOATCAST], [9, 1])[0]
    cfg = good_config_for(r, '*', algo)
    if algo == A.MINMAX and r.random() < 0.6:
      cfg = r.choice(['a8w8', 'a8w8', 'a16w8', 'a8w8_t'])
    return {'op': 'update', 'q': q, 'regex': '.*', 'operation': '*', 'config': cfg,
            'algorithm': algo, 'spelling': sp}
  if k < 0.12:
    return {'op': 'load', 'q': q, 'shipped': r.choice(A.SHIPPED)}
  if k < 0.22:
    rules = [draw_rule(r, spec, pool, 0.95) for _ in range(r.randint(1, 4))]
    if faults and r.random() < 0.3:
      present = spec.qnames_present() or ['FULLY_CONNECTED']
      bad = [r.choice(pool), r.choice(present), r.choice(['bad_w16', 'bad_w2', 'bad_a16asym']),
             A.MINMAX]
      rules.insert(r.randrange(len(rules) + 1), bad)
    return {'op': 'load', 'q': q, 'rules': rules}
  if k < 0.45 and rules_so_far:
    # selective quantization: switch one present operator type off (or to another mode)
    base = r.choice(rules_so_far)
    present = spec.qnames_present() or ['FULLY_CONNECTED']
    op = r.choice(present + ['OUTPUT', 'INPUT'][:1])
    if r.random() < 0.7:
      return {'op': 'update', 'q': q, 'regex': base[0], 'operation': op,
              'config': r.choice(['none', 'default', 'a8w8']), 'algorithm': A.NOQ, 'spelling': sp}
    cfg = good_config_for(r, op, A.MINMAX)
    return {'op': 'update', 'q': q, 'regex': base[0], 'operation': op, 'config': cfg,
            'algorithm': A.MINMAX, 'spelling': sp}
  if faults and k < 0.53:
    present = spec.qnames_present() or ['FULLY_CONNECTED']
    return {'op': 'update', 'q': q, 'regex': r.choice(pool), 'operation': r.choice(present),
            'config': r.choice(['bad_w16', 'bad_w2', 'bad_a16asym', 'bad_drq_asym', 'fp16']),
            'algorithm': A.MINMAX, 'spelling': sp, 'fault': 'rejected_update'}
  rg, op, cfg, algo = draw_rule(r, spec, pool)
  e = {'op': 'update', 'q': q, 'regex': rg, 'operation': op, 'config': cfg,
       'algorithm': algo, 'spelling': sp}
  if r.random() < 0.3:
    e['defaults'] = r.choice([True, 'kw'])
  return e


def looks_accepted(op):
  """Abstract (generator-side) guess whether an edit adds rules; used only to steer the mix."""
  if op['op'] == 'load':
    return True
  return not op.get('fault') and not str(op.get('config', '')).startswith('bad_')


def abstract_rules(op):
  if op['op'] == 'update':
    return [[op['regex'], op['operation'], op['config'], op['algorithm']]]
  if 'rules' in op:
    return list(op['rules'])
  return [['.*', '*', 'a8w8', A.MINMAX]]


def maybe_static(rules):
  """Abstract guess: does some rule carry an integer activation config?"""
  for ru in rules:
    if ru[2] in A.STATIC_CONFIGS or ru[2] == 'skip_a8w8':
      return True
  return False


# ---- applying edits to real objects (child side)


def shipped_path(name):
  import os
  import ai_edge_quantizer
  return os.path.join(os.path.dirname(ai_edge_quantizer.__file__), 'recipes', name + '.json')


def call_update(fn, op, cfg, sp):
  """Call update_quantization_recipe / add_quantization_config; with op['defaults'] the arguments
  that equal the documented defaults (algorithm_key, op_config=None) are left out of the call."""
  regex, oper, algo = op['regex'], A.mk_op(op['operation'], sp), A.mk_algo(op['algorithm'], sp)
  if op.get('defaults') and op['algorithm'] == A.MINMAX:
    if cfg is None:
      return fn(regex, oper)
    if op.get('defaults') == 'kw':
      return fn(regex, oper, op_config=cfg)
    return fn(regex, oper, cfg)
  if op.get('defaults') == 'kw':
    return fn(regex=regex, operation_name=oper, op_config=cfg, algorithm_key=algo)
  return fn(regex, oper, cfg, algo)


def apply_edit(q, op, other_export=None):
  """Apply an update/load op to a real Quantizer. Returns (outcome, recipe-call record).

  The call record is what a reference process replays to rebuild the same recipe.
  """
  import json
  from sim import harness
  if op['op'] == 'update':
    sp = op.get('spelling', 'enum')
    try:
      cfg = A.mk_config(op['config'], sp)
    except ValueError:
      return 'config-invalid', None
    try:
      call_update(q.update_quantization_recipe, op, cfg, sp)
      return 'accepted', op
    except Exception as e:  # pylint: disable=broad-except
      return 'rejected:' + harness.exc_class(e), op
  if 'rules' in op:
    rules = [A.rule_dict(*ru) for ru in op['rules']]
  elif 'shipped' in op:
    with open(shipped_path(op['shipped'])) as f:
      rules = json.load(f)
  elif 'path' in op:
    rules = op['path']
  else:
    rules = other_export
  try:
    q.load_quantization_recipe(rules)
    return 'ok', op
  except Exception as e:  # pylint: disable=broad-except
    return 'raised:' + harness.exc_class(e), op
