"""Small executable reference models used as oracles.

RecipeModel: the documented last-applicable-rule-wins semantics of the recipe
manager, written from the property statement (C11), not from the implementation.
ema_reference: exponential moving average of per-sample min/max (C09).
"""
import re


class Rule:
  __slots__ = ('regex', 'op', 'algo', 'cfg')

  def __init__(self, regex, op, algo, cfg):
    self.regex, self.op, self.algo, self.cfg = regex, op, algo, cfg


def _val(x):
  return getattr(x, 'value', x)


class RecipeModel:
  """Ordered list of groups [(regex, [rules])]."""

  def __init__(self, check, default_cfg_factory):
    self.groups = []          # list of [regex, [Rule]]
    self.check = check        # check(algo, op, cfg) -> raises ValueError if unsupported
    self.default_cfg = default_cfg_factory
    self.skips = 0            # probe: rules skipped at resolution time

  def clear(self):
    self.groups = []

  def add(self, regex, op, cfg, algo):
    """Apply an *accepted* add (the caller decides acceptance from the real outcome)."""
    op, algo = _val(op), _val(algo)
    if cfg is None:
      cfg = self.default_cfg()
    rule = Rule(regex, op, algo, cfg)
    for g in self.groups:
      if g[0] == regex:
        if op == '*':
          g[1] = [rule]
          return 'star_reset' if True else None
        for i, r in enumerate(g[1]):
          if r.op == op:
            g[1][i] = rule
            return 'replaced'
        g[1].append(rule)
        return 'appended'
    self.groups.append([regex, [rule]])
    return 'new_group'

  def rules(self):
    return [r for g in self.groups for r in g[1]]

  def resolve(self, op, scope):
    op = _val(op)
    res = ('no_quantize', self.default_cfg())
    for regex, rules in self.groups:
      if not re.search(regex, scope):
        continue
      for r in rules:
        if r.op != '*' and r.op != op:
          continue
        if r.algo != 'no_quantize':
          try:
            self.check(r.algo, op, r.cfg)
          except ValueError:
            self.skips += 1
            continue
        res = (r.algo, r.cfg)
    return res


def ema_reference(values, weight=0.95):
  """s1 = x1; si = w*s(i-1) + (1-w)*xi, in float64."""
  s = None
  for x in values:
    x = float(x)
    s = x if s is None else weight * s + (1.0 - weight) * x
  return s
