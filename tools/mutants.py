#!/venv/bin/python
"""Sensitivity self-test: apply each mutant to a scratch worktree of /repo (outside /repo
and /verif, removed afterwards), confirm the pinned suite still passes, then run the
relevant quick check against the scratch copy and require a replay-confirmed VIOLATION.

  tools/mutants.py [name-substring ...]      results -> mutants/RESULTS.json + table on stdout

Not registered in MANIFEST.json: this is the harness's own validation tool.
"""
import json
import os
import re
import shutil
import subprocess
import sys
import tempfile
import time

V = os.path.dirname(os.path.dirname(os.path.abspath(__file__)))
R = 'ai_edge_quantizer/'

M = []


def mut(name, prop, file, old, new, note=''):
  M.append(dict(name=name, prop=prop, file=R + file, old=old, new=new, note=note))


# ------------------------------------------------------------------ C09
mut('c09_share_previous', 'C09', 'calibrator.py',
    'self._model_qsvs = copy.deepcopy(model_qsvs)', 'self._model_qsvs = model_qsvs',
    'previous result shared instead of copied, folded in place')
mut('c09_no_once_per_sample_guard', 'C09', 'calibrator.py',
    '      if tensor_name in ignore_tensor_names:\n        continue\n', '',
    'tensor folded once per touching operator instead of once per sample')
mut('c09_swapped_ema_operands', 'C09', 'utils/calibration_utils.py',
    'return smoothing_factor * w + (1.0 - smoothing_factor) * update',
    'return smoothing_factor * update + (1.0 - smoothing_factor) * w')
mut('c09_running_minmax', 'C09', 'calibrator.py',
    '] = calibration_utils.moving_average_update,', '] = calibration_utils.min_max_update,',
    'running min/max instead of moving average')
mut('c09_peek_consumes_stream', 'C09', 'calibrator.py',
    '    # TODO: b/329322226 - Enable parrallel calibration.\n',
    '    if not any(True for _ in calibration_dataset):\n      return\n',
    'emptiness check iterates the stream: one-shot streams lose their samples')
mut('c09_stale_tensor_content', 'C09', 'calibrator.py',
    '''      signature_output = tfl_interpreter_utils.invoke_interpreter_signature(
          self._tfl_interpreter, data, signature_key
      )
      if cache_output:
        self._cached_output.append(signature_output)
      self._tensor_content_map = (
          tfl_interpreter_utils.get_tensor_name_to_content_map(
              self._tfl_interpreter
          )
      )
''',
    '''      self._tensor_content_map = (
          tfl_interpreter_utils.get_tensor_name_to_content_map(
              self._tfl_interpreter
          )
      )
      signature_output = tfl_interpreter_utils.invoke_interpreter_signature(
          self._tfl_interpreter, data, signature_key
      )
      if cache_output:
        self._cached_output.append(signature_output)
''', 'tensor contents read before invoking')
mut('c09_cached_calibrator', 'C09', 'quantizer.py',
    '''    calib = calibrator.Calibrator(self.float_model)
    if previous_calibration_result is not None:
''',
    '''    calib = getattr(self, '_calib', None)
    if calib is None:
      calib = self._calib = calibrator.Calibrator(self.float_model)
    if previous_calibration_result is not None:
''', 'calibrator kept on the Quantizer: a crashed or earlier session leaves residue')
mut('c09_reset_on_resume', 'C09', 'calibrator.py',
    '    if not self._model_qsvs:\n      self._initialize_model_qsvs(model_recipe_manager)\n',
    '    if not self._model_qsvs or signature_key is None:\n      self._model_qsvs = {}\n      self._initialize_model_qsvs(model_recipe_manager)\n',
    're-initialising on resume')
mut('c09_embedding_channel_axis', 'C09', 'utils/tfl_flatbuffer_utils.py',
    '    _TFLOpName.EMBEDDING_LOOKUP: 0,\n    _TFLOpName.CONV_2D_TRANSPOSE: 0,',
    '    _TFLOpName.EMBEDDING_LOOKUP: 1,\n    _TFLOpName.CONV_2D_TRANSPOSE: 0,',
    'per-channel statistics of embedding tables along the wrong axis')
mut('c09_first_sample_skipped', 'C09', 'utils/calibration_utils.py',
    '  if not qsv:\n    return new_qsv\n\n  updated_qsv = {}\n  updated_qsv["min"] = _update_moving_average(',
    '  if not qsv:\n    return {k: v * (1.0 - smoothing_factor) for k, v in new_qsv.items()}\n\n  updated_qsv = {}\n  updated_qsv["min"] = _update_moving_average(',
    'first sample folded as if the old value were zero')

mut('c09_smoothing_0949', 'C09', 'utils/calibration_utils.py',
    'qsv: qtyping.QSV, new_qsv: qtyping.QSV, smoothing_factor: float = 0.95\n',
    'qsv: qtyping.QSV, new_qsv: qtyping.QSV, smoothing_factor: float = 0.949\n',
    'smoothing weight off by 0.001 (margin test for the EMA tolerance)')
mut('c09_max_uses_abs', 'C09', 'algorithms/uniform_quantize/naive_min_max_quantize.py',
    '        "max": np.max(tensor_content, axis=None, keepdims=True),\n',
    '        "max": np.max(np.abs(tensor_content), axis=None, keepdims=True),\n',
    'per-sample max taken over |x| (differs only for tensors whose largest magnitude is negative)')

# ------------------------------------------------------------------ C11
mut('c11_match_not_search', 'C11', 'recipe_manager.py',
    'if re.search(scope_regex, scope_name):', 'if re.match(scope_regex, scope_name):')
mut('c11_readd_moves_to_end', 'C11', 'recipe_manager.py',
    '      self._scope_configs[regex] = configs\n',
    '      self._scope_configs[regex] = configs\n      self._scope_configs.move_to_end(regex)\n')
mut('c11_star_appends', 'C11', 'recipe_manager.py',
    '      self._scope_configs[regex] = [config]\n      return\n',
    '      self._scope_configs.setdefault(regex, []).append(config)\n      return\n',
    "'*' no longer resets the regex's rules")
mut('c11_star_moves_group', 'C11', 'recipe_manager.py',
    '      self._scope_configs[regex] = [config]\n      return\n',
    '      self._scope_configs.pop(regex, None)\n      self._scope_configs[regex] = [config]\n      return\n',
    "'*' reset re-inserts the regex at the end")
mut('c11_unsupported_not_skipped', 'C11', 'recipe_manager.py',
    '              continue  # Skip the recipe if it is not supported.',
    '              pass  # Skip the recipe if it is not supported.')
mut('c11_resolution_cache', 'C11', 'recipe_manager.py',
    '''    result_key, result_config = (
        AlgorithmName.NO_QUANTIZE,
        _OpQuantizationConfig(),
    )
''',
    '''    cache = self.__dict__.setdefault('_resolved', {})
    if (target_op_name, scope_name, len(self._scope_configs)) in cache:
      return cache[(target_op_name, scope_name, len(self._scope_configs))]
    result_key, result_config = (
        AlgorithmName.NO_QUANTIZE,
        _OpQuantizationConfig(),
    )
''', 'placeholder; completed below')
mut('c11_shared_default_container', 'C11', 'recipe_manager.py',
    '''  def __init__(self):
    """Scope name config.''',
    '''  def __init__(self, scope_configs=collections.OrderedDict()):
    """Scope name config.''', 'placeholder; completed below')
mut('c11_rejected_add_leaves_group', 'C11', 'recipe_manager.py',
    '''    if algorithm_key != AlgorithmName.NO_QUANTIZE:
      algorithm_manager.check_op_quantization_config(
          algorithm_key, operation_name, op_config
      )

    if regex not in self._scope_configs:
      self._scope_configs[regex] = [config]
''',
    '''    if regex not in self._scope_configs:
      self._scope_configs[regex] = []
    if algorithm_key != AlgorithmName.NO_QUANTIZE:
      algorithm_manager.check_op_quantization_config(
          algorithm_key, operation_name, op_config
      )

    if not self._scope_configs[regex]:
      self._scope_configs[regex] = [config]
''', 'a refused add leaves an empty group behind (changes later insertion order)')
mut('c11_load_does_not_clear', 'C11', 'recipe_manager.py',
    '    self._scope_configs = collections.OrderedDict()\n    for config in quantization_recipe:',
    '    for config in quantization_recipe:')
mut('c11_replace_only_same_algorithm', 'C11', 'recipe_manager.py',
    '        if existing_config.operation == config.operation:',
    '        if (existing_config.operation == config.operation and\n            existing_config.algorithm_key == config.algorithm_key):',
    're-adding an operator under another algorithm appends instead of replacing')
mut('c11_first_applicable_wins_in_group', 'C11', 'recipe_manager.py',
    '          result_config = selected_recipe.op_config\n          result_key = selected_recipe.algorithm_key\n',
    '          result_config = selected_recipe.op_config\n          result_key = selected_recipe.algorithm_key\n          break\n')
# ------------------------------------------------------------------ C12
mut('c12_revert_noquant_fix', 'C12', 'recipe_manager.py',
    "          or 'op_config' in config\n", '', 'the repaired defect b9dd5ab returns')
mut('c12_revert_fromdict_fix', 'C12', 'qtyping.py',
    "    if 'weight_tensor_config' in params_copy:\n      params_copy['weight_tensor_config'] = TensorQuantizationConfig.from_dict(\n          params_copy['weight_tensor_config']\n      )\n",
    "    params_copy['weight_tensor_config'] = TensorQuantizationConfig.from_dict(\n        params_copy['weight_tensor_config']\n    )\n",
    'the repaired defect 7b8ddda returns')
mut('c12_todict_drops_falsy', 'C12', 'qtyping.py',
    '''            # Skip None and empty dict values.
            if v is not None and not (isinstance(v, dict) and not v)
        },
    )

  @classmethod
  def from_dict(cls, params: dict[str, Any]) -> 'OpQuantizationConfig':''',
    '''            # Skip None and empty dict values.
            if v and not (isinstance(v, dict) and not v)
        },
    )

  @classmethod
  def from_dict(cls, params: dict[str, Any]) -> 'OpQuantizationConfig':''',
    'op-level to_dict omits False fields; nested symmetric=False vanishes and reloads as True')
mut('c12_fromdict_ignores_skip_checks', 'C12', 'qtyping.py',
    "    if 'activation_tensor_config' in params_copy:\n      params_copy['activation_tensor_config'] = (",
    "    params_copy.pop('skip_checks', None)\n    if 'activation_tensor_config' in params_copy:\n      params_copy['activation_tensor_config'] = (")
mut('c12_load_sorted_rules', 'C12', 'quantizer.py',
    '        recipe = json.load(json_file)\n',
    "        recipe = sorted(json.load(json_file), key=lambda r: r['regex'])\n",
    'rules re-ordered when a recipe is loaded from a file')
mut('c12_tensor_fromdict_drops_dtype', 'C12', 'qtyping.py',
    "    params_copy = copy.deepcopy(params)\n    return cls(**params_copy)",
    "    params_copy = copy.deepcopy(params)\n    params_copy.pop('dtype', None)\n    return cls(**params_copy)",
    'tensor dtype not restored on load (float16 weights reload as INT)')
mut('c12_cached_export_stale_after_load', 'C12', 'quantizer.py',
    '    return self._recipe_manager.get_quantization_recipe()\n',
    "    if getattr(self, '_exported', None) is None:\n      self._exported = self._recipe_manager.get_quantization_recipe()\n    return self._exported\n",
    'exported recipe cached on the Quantizer, invalidated by update but not by load')
mut('c12_sample_recipe_stale', 'C12', 'recipes/sample_advanced_usage_recipe.json',
    '"granularity": "CHANNELWISE",\n        "dtype": "INT"\n      },\n      "compute_precision": "FLOAT"',
    '"channel_wise": true,\n        "dtype": "INT"\n      },\n      "compute_precision": "FLOAT"',
    'the repaired defect 6339d31 returns (partly)')

# ------------------------------------------------------------------ C14
mut('c14_revert_deepcopy_fix', 'C14', 'params_generator.py',
    '      model_qsvs = copy.deepcopy(model_qsvs)\n', '      pass\n',
    'the repaired defect 2e78bc3 returns')
mut('c14_previous_result_shared', 'C14', 'calibrator.py',
    'self._model_qsvs = copy.deepcopy(model_qsvs)', 'self._model_qsvs = model_qsvs')
mut('c14_cached_params_generator', 'C14', 'quantizer.py',
    '''    params_generator_instance = params_generator.ParamsGenerator(
        self.float_model
    )
''',
    '''    params_generator_instance = getattr(self, '_params_generator', None)
    if params_generator_instance is None:
      params_generator_instance = self._params_generator = (
          params_generator.ParamsGenerator(self.float_model)
      )
''', 'ParamsGenerator cached on the Quantizer: second quantize sees accumulated results')
mut('c14_cached_model_modifier', 'C14', 'quantizer.py',
    '    model_modifier_instance = model_modifier.ModelModifier(self.float_model)\n',
    "    model_modifier_instance = getattr(self, '_model_modifier', None)\n    if model_modifier_instance is None:\n      model_modifier_instance = self._model_modifier = (\n          model_modifier.ModelModifier(self.float_model)\n      )\n",
    'ModelModifier cached: _constant_map accumulates (visible on the large-model path)')
mut('c14_fromdict_no_copy', 'C14', 'qtyping.py',
    "    params_copy = copy.deepcopy(params)\n    if 'weight_tensor_config' in params_copy:",
    "    params_copy = params\n    if 'weight_tensor_config' in params_copy:",
    "from_dict rewrites the caller's recipe dict")
mut('c14_qsv_partial_copy', 'C14', 'params_generator.py',
    '      model_qsvs = copy.deepcopy(model_qsvs)\n', '      model_qsvs = dict(model_qsvs)\n',
    'shallow copy: in-place writes into per-tensor entries still reach the caller')
mut('c14_hash_seed_order', 'C14', 'transformation_instruction_generator.py',
    '    for tensor_name in params:\n', '    for tensor_name in set(params):\n',
    'instructions generated in set-of-strings order: output depends on PYTHONHASHSEED')

# ------------------------------------------------------------------ C16
mut('c16_offset_before_padding', 'C16', 'model_modifier.py',
    '''    # calculate the correct buffer size and offset
    while len(dummy_bytearray) % 16:
      dummy_bytearray += b'\\0'
''', '''    # calculate the correct buffer size and offset
''', 'first offset taken before the flatbuffer part is padded')
mut('c16_no_padding_between_buffers', 'C16', 'model_modifier.py',
    '''      model_bytearray += buffer_data
      while len(model_bytearray) % 16:
        model_bytearray += b'\\0'
''', '''      model_bytearray += buffer_data
''', 'padding dropped between buffers in the final pass')
mut('c16_size_includes_padding', 'C16', 'model_modifier.py',
    '      buffer.size = len(buffer_data)\n', '      buffer.size = (len(buffer_data) + 15) // 16 * 16\n')
mut('c16_align_8', 'C16', 'model_modifier.py',
    '''      dummy_bytearray += buffer_data
      while len(dummy_bytearray) % 16:''', '''      dummy_bytearray += buffer_data
      while len(dummy_bytearray) % 8:''', 'offsets computed with 8-byte padding, data written with 16')
mut('c16_constant_map_off_by_one', 'C16', 'model_modifier.py',
    '''    for buffer_idx, _ in enumerate(quantized_model.buffers):
      buffer_data = self._constant_map[buffer_idx]''',
    '''    for buffer_idx, _ in enumerate(quantized_model.buffers):
      buffer_data = self._constant_map[buffer_idx - 1]''')
mut('c16_small_buffers_inline', 'C16', 'model_modifier.py',
    '''      if buffer.data is not None and len(buffer.data):
        buffer.data = None''',
    '''      if buffer.data is not None and len(buffer.data) > 4:
        buffer.data = None''', 'tiny buffers stay inline but are appended and counted too')
mut('c16_offset_from_second_pass_missing', 'C16', 'model_modifier.py',
    '      buffer.offset = len(dummy_bytearray)\n', '      buffer.offset = len(dummy_bytearray) - 16\n')
mut('c16_sorted_constants', 'C16', 'model_modifier.py',
    '''    for buffer_idx, buffer in enumerate(quantized_model.buffers):
      buffer_data = self._constant_map[buffer_idx]
      if buffer_data is None or not len(buffer_data):
        continue
      buffer.offset = len(dummy_bytearray)''',
    '''    for buffer_idx, buffer in sorted(
        enumerate(quantized_model.buffers),
        key=lambda b: len(self._constant_map[b[0]] or b''),
    ):
      buffer_data = self._constant_map[buffer_idx]
      if buffer_data is None or not len(buffer_data):
        continue
      buffer.offset = len(dummy_bytearray)''', 'offsets assigned in size order, data appended in index order')

mut('c16_revert_empty_buffer_fix', 'C16', 'model_modifier.py',
    '      if buffer.data is not None and len(buffer.data):\n', '      if buffer.data is not None:\n',
    'the repaired defect b4e2bee returns (first half)')

# multi-site mutants: extra edits applied after the first replacement
EXTRA = {
    'c16_revert_empty_buffer_fix': [(R + 'model_modifier.py',
                                     '      if buffer_data is None or not len(buffer_data):\n',
                                     '      if buffer_data is None:\n')],
    'c11_resolution_cache': [(R + 'recipe_manager.py',
                              '    return result_key, result_config\n',
                              '    cache[(target_op_name, scope_name, len(self._scope_configs))] = (\n        result_key, result_config)\n    return result_key, result_config\n')],
    'c11_shared_default_container': [(R + 'recipe_manager.py',
                                      '''    self._scope_configs: collections.OrderedDict[
        str, list[OpQuantizationRecipe]
    ] = collections.OrderedDict()

  # TODO''',
                                      '''    self._scope_configs: collections.OrderedDict[
        str, list[OpQuantizationRecipe]
    ] = scope_configs

  # TODO''')],
    'c12_cached_export_stale_after_load': [(R + 'quantizer.py',
                                            '    self._recipe_manager.add_quantization_config(\n        regex, operation_name, op_config, algorithm_key\n    )\n',
                                            '    self._recipe_manager.add_quantization_config(\n        regex, operation_name, op_config, algorithm_key\n    )\n    self._exported = None\n')],
}


def sh(cmd, **kw):
  return subprocess.run(cmd, shell=True, stdout=subprocess.PIPE, stderr=subprocess.STDOUT,
                        text=True, **kw)


def run_one(m, runs):
  wt = tempfile.mkdtemp(prefix='aeq-mut-')
  os.rmdir(wt)
  out = {'name': m['name'], 'prop': m['prop'], 'note': m['note']}
  try:
    r = sh('git -C /repo worktree add -q --detach %s HEAD' % wt)
    if r.returncode:
      out['status'] = 'worktree-failed: ' + r.stdout[-300:]
      return out
    edits = [(m['file'], m['old'], m['new'])] + EXTRA.get(m['name'], [])
    for f, old, new in edits:
      p = os.path.join(wt, f)
      s = open(p).read()
      if s.count(old) != 1:
        out['status'] = 'patch-does-not-apply (%d matches in %s)' % (s.count(old), f)
        return out
      open(p, 'w').write(s.replace(old, new))
    out['diff'] = sh('git -C %s diff' % wt).stdout
    b = sh('%s/tools/baseline_check.py %s' % (V, wt))
    out['suite'] = b.stdout.strip().splitlines()[0] if b.stdout.strip() else ''
    out['suite_kills'] = b.returncode != 0
    outdir = tempfile.mkdtemp(prefix='aeq-mut-out-')
    t0 = time.time()
    env = dict(os.environ, AEQ_REPO=wt, AEQ_OUT_DIR=outdir, VERIF_RUNS=str(runs))
    c = sh('%s/check %s' % (V, m['prop']), env=env)
    out['wall'] = round(time.time() - t0, 1)
    out['exit'] = c.returncode
    lines = c.stdout.splitlines()
    out['violation_lines'] = [l for l in lines if l.startswith('VIOLATION') or l.strip().startswith('class=')]
    out['harness'] = [l[:300] for l in lines if l.startswith('HARNESS-ERROR')][:3]
    out['status'] = 'caught' if c.returncode == 1 and out['violation_lines'] else \
        ('missed' if c.returncode == 0 else 'harness-error')
    if out['suite_kills']:
      out['status'] += ' (suite kills it too)'
    vs = [l for l in lines if l.startswith('VIOLATION')]
    if vs:
      rp = vs[0].split('replay=')[1]
      try:
        d = json.load(open(rp))
        out['replay_ops'] = len(d['ops'])
        out['minimised'] = d.get('minimised')
      except Exception:  # pylint: disable=broad-except
        pass
    shutil.rmtree(outdir, ignore_errors=True)
    return out
  finally:
    sh('git -C /repo worktree remove --force %s' % wt)
    shutil.rmtree(wt, ignore_errors=True)
    sh('git -C /repo worktree prune')


def main():
  pats = [a for a in sys.argv[1:] if not a.startswith('--')]
  runs = 1500
  for a in sys.argv[1:]:
    if a.startswith('--runs='):
      runs = int(a.split('=')[1])
  todo = [m for m in M if not pats or any(p in m['name'] for p in pats)]
  results = []
  for m in todo:
    r = run_one(m, runs)
    results.append(r)
    print('%-40s %-4s %-30s %s %s' % (r['name'], r['prop'], r['status'],
                                      (r.get('violation_lines') or [''])[-1][:110], r.get('harness') or ''),
          flush=True)
  path = os.path.join(V, 'mutants', 'RESULTS.json')
  os.makedirs(os.path.dirname(path), exist_ok=True)
  old = {}
  if os.path.exists(path):
    old = {r['name']: r for r in json.load(open(path))}
  for r in results:
    old[r['name']] = r
  json.dump([old[k] for k in sorted(old)], open(path, 'w'), indent=1)


if __name__ == '__main__':
  main()
