#!/venv/bin/python
"""Confirm a sub-agent's seeded change and run the checks against it.

  tools/seeded.py collect <id> <worktree> <property> "<needs>"   # verify + store under seeded/<id>/
  tools/seeded.py run [id ...] [--runs=N] [--tier=quick]          # apply each stored patch to a scratch
                                                                  # worktree, run its property's check
Scratch worktrees live under the system temp dir and are removed afterwards.
"""
import json
import os
import shutil
import subprocess
import sys
import tempfile
import time

V = os.path.dirname(os.path.dirname(os.path.abspath(__file__)))


def sh(cmd, **kw):
  return subprocess.run(cmd, shell=True, stdout=subprocess.PIPE, stderr=subprocess.STDOUT,
                        text=True, **kw)


def demo(wt):
  env = dict(os.environ, PYTHONPATH=wt, TF_CPP_MIN_LOG_LEVEL='3')
  r = sh('cd %s && /venv/bin/python demo.py' % wt, env=env)
  tail = [l for l in r.stdout.splitlines() if not l.startswith(('WARNING', 'W0000', 'I0000', 'E0000'))]
  return r.returncode, '\n'.join(tail[-8:])


def collect(sid, wt, prop, needs):
  d = os.path.join(V, 'seeded', sid)
  os.makedirs(d, exist_ok=True)
  diff = sh('git -C %s diff' % wt).stdout
  assert diff.strip(), 'no change in worktree'
  open(os.path.join(d, 'patch.diff'), 'w').write(diff)
  shutil.copy(os.path.join(wt, 'demo.py'), os.path.join(d, 'demo.py'))
  rc1, out1 = demo(wt)
  suite = sh('%s/tools/baseline_check.py %s' % (V, wt)).stdout.strip().splitlines()[0]
  sh('git -C %s stash' % wt)
  rc0, out0 = demo(wt)
  sh('git -C %s stash pop' % wt)
  meta = {
      'id': sid, 'property': prop, 'needs_to_manifest': needs,
      'files': sorted(set(l[6:] for l in diff.splitlines() if l.startswith('+++ b/'))),
      'confirmed': {
          'demo_with_change': {'exit': rc1, 'output': out1},
          'demo_without_change': {'exit': rc0, 'output': out0},
          'pinned_suite_with_change': suite,
          'how': 'sub-agent worktree %s (git worktree of /repo HEAD): ran demo.py with the change, '
                 'git stash, ran it again, git stash pop; tools/baseline_check.py on the worktree' % wt,
      },
  }
  ok = rc1 != 0 and rc0 == 0 and 'missing=0' in suite
  meta['kept'] = ok
  json.dump(meta, open(os.path.join(d, 'meta.json'), 'w'), indent=1)
  print(sid, 'kept' if ok else 'REJECTED', rc1, rc0, suite)


def run(ids, runs, tier):
  base = os.path.join(V, 'seeded')
  for sid in sorted(os.listdir(base)):
    if ids and sid not in ids:
      continue
    d = os.path.join(base, sid)
    meta = json.load(open(os.path.join(d, 'meta.json')))
    if not meta.get('kept'):
      continue
    wt = tempfile.mkdtemp(prefix='aeq-seeded-')
    os.rmdir(wt)
    try:
      sh('git -C /repo worktree add -q --detach %s HEAD' % wt)
      r = sh('git -C %s apply %s' % (wt, os.path.join(d, 'patch.diff')))
      if r.returncode:
        print(sid, 'patch does not apply:', r.stdout[-300:])
        continue
      results = meta.setdefault('check_results', {})
      for prop in [meta['property']] + meta.get('also_run', []):
        outdir = tempfile.mkdtemp(prefix='aeq-seeded-out-')
        env = dict(os.environ, AEQ_REPO=wt, AEQ_OUT_DIR=outdir, VERIF_TIER=tier)
        if runs:
          env['VERIF_RUNS'] = str(runs)
        t0 = time.time()
        c = sh('%s/check %s' % (V, prop), env=env)
        lines = c.stdout.splitlines()
        res = {'exit': c.returncode, 'wall_s': round(time.time() - t0, 1), 'tier': tier,
               'runs': runs or 'default',
               'violations': [l for l in lines if l.startswith('VIOLATION')],
               'classes': [l.strip() for l in lines if l.strip().startswith('class=')],
               'sweep': [l for l in lines if l.startswith('sweep:')],
               'harness': [l[:300] for l in lines if l.startswith('HARNESS-ERROR')]}
        for l in res['violations'][:1]:
          try:
            doc = json.load(open(l.split('replay=')[1]))
            res['minimised'] = doc.get('minimised')
            res['replay_ops'] = doc['ops']
          except Exception:  # pylint: disable=broad-except
            pass
        res['verdict'] = 'caught' if c.returncode == 1 and res['violations'] else \
            ('missed' if c.returncode == 0 else 'harness-error')
        results['%s/%s' % (prop, tier)] = res
        shutil.rmtree(outdir, ignore_errors=True)
        print('%-10s %-4s %-6s %-14s %s' % (sid, prop, tier, res['verdict'],
                                          (res['classes'] or res['harness'] or [''])[0][:120]), flush=True)
      meta['checks_run_how'] = ('patch applied to a scratch git worktree of /repo HEAD under the temp dir; '
                                'checks run with AEQ_REPO=<worktree> (the library is imported from there), '
                                'evidence/replays redirected with AEQ_OUT_DIR; worktree removed afterwards')
      json.dump(meta, open(os.path.join(d, 'meta.json'), 'w'), indent=1)
    finally:
      sh('git -C /repo worktree remove --force %s' % wt)
      shutil.rmtree(wt, ignore_errors=True)
      sh('git -C /repo worktree prune')


def collect_keep(sid, wt, prop, what):
  """Store a property-PRESERVING change (false-alarm test) under preserving/<id>/."""
  d = os.path.join(V, 'preserving', sid)
  os.makedirs(d, exist_ok=True)
  diff = sh('git -C %s diff' % wt).stdout
  assert diff.strip(), 'no change in worktree'
  open(os.path.join(d, 'patch.diff'), 'w').write(diff)
  if os.path.exists(os.path.join(wt, 'demo.py')):
    shutil.copy(os.path.join(wt, 'demo.py'), os.path.join(d, 'demo.py'))
  rc1, out1 = demo(wt)
  suite = sh('%s/tools/baseline_check.py %s' % (V, wt)).stdout.strip().splitlines()[0]
  meta = {'id': sid, 'kind': 'property-preserving change', 'property': prop, 'what': what,
          'files': sorted(set(l[6:] for l in diff.splitlines() if l.startswith('+++ b/'))),
          'lines_changed': sum(1 for l in diff.splitlines() if l[:1] in '+-' and l[:3] not in ('+++', '---')),
          'confirmed': {'demo_exit': rc1, 'demo_output': out1, 'pinned_suite_with_change': suite},
          'kept': rc1 == 0 and 'missing=0' in suite}
  json.dump(meta, open(os.path.join(d, 'meta.json'), 'w'), indent=1)
  print(sid, 'kept' if meta['kept'] else 'REJECTED', rc1, suite)


def run_keep(ids, runs):
  base = os.path.join(V, 'preserving')
  for sid in sorted(os.listdir(base)):
    if ids and sid not in ids:
      continue
    d = os.path.join(base, sid)
    meta = json.load(open(os.path.join(d, 'meta.json')))
    if not meta.get('kept'):
      continue
    wt = tempfile.mkdtemp(prefix='aeq-keep-')
    os.rmdir(wt)
    try:
      sh('git -C /repo worktree add -q --detach %s HEAD' % wt)
      r = sh('git -C %s apply %s' % (wt, os.path.join(d, 'patch.diff')))
      if r.returncode:
        print(sid, 'patch does not apply:', r.stdout[-300:])
        continue
      results = meta.setdefault('check_results', {})
      for prop in ['C09', 'C11', 'C12', 'C14', 'C16']:
        outdir = tempfile.mkdtemp(prefix='aeq-keep-out-')
        env = dict(os.environ, AEQ_REPO=wt, AEQ_OUT_DIR=outdir)
        if runs:
          env['VERIF_RUNS'] = str(runs)
        c = sh('%s/check %s' % (V, prop), env=env)
        lines = c.stdout.splitlines()
        res = {'exit': c.returncode, 'runs': runs or 'default',
               'sweep': [l for l in lines if l.startswith('sweep:')],
               'violations': [l for l in lines if l.startswith('VIOLATION')],
               'classes': [l.strip()[:400] for l in lines if l.strip().startswith('class=')],
               'harness': [l[:400] for l in lines if l.startswith('HARNESS-ERROR')]}
        res['verdict'] = 'clean' if c.returncode == 0 else ('ALARM' if c.returncode == 1 else 'harness-error')
        results[prop] = res
        shutil.rmtree(outdir, ignore_errors=True)
        print('%-12s %-4s %-14s %s' % (sid, prop, res['verdict'], (res['classes'] or res['harness'] or [''])[0][:150]), flush=True)
      json.dump(meta, open(os.path.join(d, 'meta.json'), 'w'), indent=1)
    finally:
      sh('git -C /repo worktree remove --force %s' % wt)
      shutil.rmtree(wt, ignore_errors=True)
      sh('git -C /repo worktree prune')


if __name__ == '__main__':
  if sys.argv[1] == 'collect-keep':
    collect_keep(*sys.argv[2:6])
  elif sys.argv[1] == 'run-keep':
    ids = [a for a in sys.argv[2:] if not a.startswith('--')]
    runs = next((int(a.split('=')[1]) for a in sys.argv if a.startswith('--runs=')), None)
    run_keep(ids, runs)
  elif sys.argv[1] == 'collect':
    collect(*sys.argv[2:6])
  else:
    ids = [a for a in sys.argv[2:] if not a.startswith('--')]
    runs = next((int(a.split('=')[1]) for a in sys.argv if a.startswith('--runs=')), None)
    tier = next((a.split('=')[1] for a in sys.argv if a.startswith('--tier=')), 'quick')
    run(ids, runs, tier)
