#!/venv/bin/python
"""Run the repository's pinned suite with the guard OFF and compare with BASELINE.json."""
import json, os, subprocess, sys, tempfile
import xml.etree.ElementTree as ET
base = json.load(open('/root/.vp/BASELINE.json'))
env = dict(os.environ)
env.pop('AI_EDGE_QUANTIZER_VERIF', None)
env.pop('AI_EDGE_QUANTIZER_VERIF_LARGE_MODEL_THRESHOLD', None)
with tempfile.TemporaryDirectory() as d:
  x = os.path.join(d, 'j.xml')
  subprocess.run(['/venv/bin/python', '-m', 'pytest', '-ra', '-q', '-p', 'no:cacheprovider',
                  '--timeout=900', '--continue-on-collection-errors', '--junitxml=' + x],
                 cwd=sys.argv[1] if len(sys.argv) > 1 else '/repo', env=env,
                 stdout=subprocess.DEVNULL, stderr=subprocess.DEVNULL)
  passed = set()
  for tc in ET.parse(x).getroot().iter('testcase'):
    if not any(c.tag in ('failure', 'error', 'skipped') for c in tc):
      passed.add('%s::%s' % (tc.get('classname'), tc.get('name')))
missing = [t for t in base['stable_pass'] if t not in passed]
print('stable_pass=%d passed_now=%d missing=%d' % (len(base['stable_pass']), len(passed), len(missing)))
for t in missing[:20]:
  print('  MISSING', t)
sys.exit(1 if missing else 0)
