import sys, os
os.environ['TF_CPP_MIN_LOG_LEVEL']='3'; os.environ['AI_EDGE_QUANTIZER_VERIF']='1'
sys.path.insert(0,'/verif')
import coverage
cov=coverage.Coverage(branch=True, source=['/repo/ai_edge_quantizer'], omit=['*_test.py','*/tests/*','*/examples/*'])
cov.start()
from sim import child, core
child.warm()
import importlib, traceback
N=int(sys.argv[1])
for prop in ['C09','C11','C12','C14','C16']:
    mod=importlib.import_module('sim.props.'+prop.lower())
    for i in range(N):
        try:
            doc=mod.generate(core.run_seed(77,prop,i))
            os.environ.pop('AI_EDGE_QUANTIZER_VERIF_LARGE_MODEL_THRESHOLD',None)
            res=mod.execute(doc)
            if prop in ('C12','C14','C09'):
                for ob in res['obligations'][:2]:
                    mod.reference(ob['payload'])
        except Exception as e:
            print(prop,i,'ERR',type(e).__name__,e)
cov.stop(); cov.save()
cov.report(show_missing=True, skip_covered=False, file=open('/tmp/aeq_cov_report.txt','w'))
print('done')
