#!/venv/bin/python
"""Regenerate the kill-matrix tables in DESIGN.md from mutants/RESULTS.json and seeded/*/meta.json."""
import glob, json, os, re
V = os.path.dirname(os.path.dirname(os.path.abspath(__file__)))
p = os.path.join(V, 'DESIGN.md')
s = open(p).read()

def block(name, text):
  global s
  b, e = '<!-- %s:BEGIN -->' % name, '<!-- %s:END -->' % name
  new = b + '\n' + text.rstrip() + '\n' + e
  if b in s:
    s = re.sub(re.escape(b) + r'.*?' + re.escape(e), lambda m: new, s, flags=re.S)
  else:
    s = s.replace(name, new, 1)

rows = ['| mutant | property | pinned suite | check | violation class | minimised ops |', '|---|---|---|---|---|---|']
for r in json.load(open(os.path.join(V, 'mutants', 'RESULTS.json'))):
  cls = ''
  for l in r.get('violation_lines', []):
    if 'class=' in l:
      cls = l.split('class=')[1].split(' ')[0]
  rows.append('| %s | %s | %s | %s | %s | %s |' % (
      r['name'], r['prop'], 'kills' if r.get('suite_kills') else 'passes',
      r['status'].split(' (')[0], cls, r.get('replay_ops', '')))
block('MUTANT_TABLE', '\n'.join(rows))

rows = ['| id | property | what it needs to manifest | check | verdict | violation class | minimised ops |',
        '|---|---|---|---|---|---|---|']
for d in sorted(glob.glob(os.path.join(V, 'seeded', '*', 'meta.json'))):
  m = json.load(open(d))
  if not m.get('kept'):
    rows.append('| %s | %s | (not kept: demo or suite did not confirm) | | | | |' % (m['id'], m['property']))
    continue
  for k, v in sorted(m.get('check_results', {}).items()):
    cls = (v['classes'] or [''])[0].split(' ')[0].replace('class=', '')
    verdict = v['verdict']
    if m.get('final_verdict') and verdict == 'missed':
      verdict = 'not detected, by decision (outside the property as stated)'
    rows.append('| %s | %s | %s | %s | %s | %s | %s |' % (
        m['id'], m['property'], m['needs_to_manifest'], k, verdict, cls,
        (v.get('minimised') or {}).get('to_ops', '')))
block('SEEDED_TABLE', '\n'.join(rows))
open(p, 'w').write(s)
print('tables regenerated')
