"""Demo: quantize/calibrate/validate are pure and history independent (C14)."""
import copy, hashlib, json, os, subprocess, sys
import numpy as np
from ai_edge_quantizer import quantizer

ROOT = os.path.dirname(os.path.abspath(__file__)) + '/ai_edge_quantizer/'
MODEL = ROOT + 'tests/models/conv_fc_mnist.tflite'
SRQ = json.load(open(ROOT + 'recipes/default_a8w8_recipe.json'))
DRQ = json.load(open(ROOT + 'recipes/dynamic_wi8_afp32_recipe.json'))
sha = lambda r: hashlib.sha256(bytes(r.quantized_model)).hexdigest()


def eq(a, b):
  if isinstance(a, dict):
    return a.keys() == b.keys() and all(eq(a[k], b[k]) for k in a)
  if isinstance(a, list):
    return len(a) == len(b) and all(eq(x, y) for x, y in zip(a, b))
  if isinstance(a, np.ndarray):
    return np.array_equal(a, b) and a.dtype == np.asarray(b).dtype
  return a == b

def data(seed, n=2):
  rng = np.random.default_rng(seed)
  return [{'conv2d_input': rng.random((1, 28, 28, 1), dtype=np.float32)}
          for _ in range(n)]

def fresh():  # one calibrate + one quantize on a brand new Quantizer
  q = quantizer.Quantizer(MODEL, copy.deepcopy(SRQ))
  c = q.calibrate(data(1), previous_calibration_result=q.calibrate(data(0)))
  return sha(q.quantize(c)), c

if len(sys.argv) > 1:  # child: fresh process with another hash seed
  print(fresh()[0])
  sys.exit(0)

model = bytearray(open(MODEL, 'rb').read())
model0, recipe, d0, d1 = bytes(model), copy.deepcopy(SRQ), data(0), data(1)
q1, q2 = quantizer.Quantizer(model, recipe), quantizer.Quantizer(model, recipe)
assert type(q1.float_model) is bytes
# calibrate twice (resuming); inputs and previous result stay equal.
prev = q1.calibrate(d0); prev0 = copy.deepcopy(prev)
calib = q1.calibrate(d1, previous_calibration_result=prev)
assert eq(prev, prev0) and eq(d0, data(0)) and eq(d1, data(1))
assert calib is not prev and all(calib[k] is not prev[k] for k in calib)
calib0 = copy.deepcopy(calib)
# history on q1: SRQ quantize, validate, switch recipe, quantize, switch back.
r_a = q1.quantize(calib)
h_a, test = sha(r_a), {'serving_default': data(7, 1)}
q1.validate(test)
assert eq(test, {'serving_default': data(7, 1)})
q1.load_quantization_recipe(DRQ)
h_drq = sha(q1.quantize(calib))
q1.validate()
q1.load_quantization_recipe(recipe)
q1.update_quantization_recipe('.*', 'SOFTMAX', algorithm_key='no_quantize')
q1.quantize(calib)
q1.load_quantization_recipe(recipe)
r_b = q1.quantize(calib)
assert eq(calib, calib0) and eq(recipe, SRQ) and bytes(model) == model0
# results are new objects; scribbling on them or the model buffer is harmless.
assert isinstance(r_a.quantized_model, bytearray)
assert r_a.quantized_model is not r_b.quantized_model
assert r_a.recipe == r_b.recipe and r_a.recipe is not r_b.recipe
r_b.quantized_model[:64] = bytes(64)
r_b.recipe[0]['op_config'].clear()
model[:] = bytes(len(model))
mse = q1.validate(test).get_signature_comparison_result().output_tensors
assert all(np.isfinite(v) for v in mse.values()), mse
h_c = sha(q1.quantize(calib))
# second quantizer sharing the same calibration result, and a fresh one.
h_q2 = sha(q2.quantize(calib))
h_fresh, c_fresh = fresh()
assert eq(calib, calib0) and eq(c_fresh, calib0)
assert h_a == sha(r_a) == h_c == h_q2 == h_fresh and h_a != h_drq, 'history'
for seed in ('1', '4242'):  # fresh processes, different hash seeds
  env = dict(os.environ, PYTHONHASHSEED=seed, TF_CPP_MIN_LOG_LEVEL='3')
  out = subprocess.run([sys.executable, __file__, 'child'], env=env, check=True,
                       capture_output=True, text=True).stdout.split()[-1]
  assert out == h_a, (seed, out)
print('OK', h_a[:16], h_drq[:16])
