"""Demo: last-applicable-rule-wins resolution still holds after the change."""
import json, os, random, re, tempfile
from ai_edge_quantizer import algorithm_manager as am, qtyping, quantizer
from ai_edge_quantizer import recipe_manager as rm
OP, TC, A = qtyping.TFLOperationName, qtyping.TensorQuantizationConfig, rm.AlgorithmName
FC, BMM, ALL, INT = OP.FULLY_CONNECTED, OP.BATCH_MATMUL, OP.ALL_SUPPORTED, qtyping.ComputePrecision.INTEGER
cfg = lambda bits, **kw: qtyping.OpQuantizationConfig(  # weight-only unless overridden
    weight_tensor_config=TC(num_bits=bits), **{'explicit_dequantize': 'compute_precision' not in kw, **kw})
CONFIGS = [cfg(8), cfg(4), cfg(8, compute_precision=INT), cfg(17), cfg(17, skip_checks=True)]  # 17: unsupported
REGEXES, OPS = ['.*', 'Dense', 'Dense_1', '^model/'], [FC, BMM, ALL]
ALGS = [A.MIN_MAX_UNIFORM_QUANT, A.NO_QUANTIZE, A.FLOAT_CASTING]
SCOPES = ['model/Dense/op', 'model/Dense_1/op', 'other/conv']
def supported(alg, op, c):
  if alg == A.NO_QUANTIZE: return True
  try: am.check_op_quantization_config(alg, op, c); return True
  except ValueError: return False
def ref_add(rules, regex, op, c, alg):  # rules: ordered {regex: [(op, alg, cfg)]}
  if op == ALL: rules[regex] = [(op, alg, c)]; return
  if not supported(alg, op, c): raise ValueError
  cur = rules.setdefault(regex, [])
  idx = [i for i, r in enumerate(cur) if r[0] == op]
  if idx: cur[idx[0]] = (op, alg, c)
  else: cur.append((op, alg, c))
def ref_get(rules, op, scope):
  out = (A.NO_QUANTIZE, qtyping.OpQuantizationConfig())
  for regex, rs in rules.items():
    if re.search(regex, scope):
      for rop, alg, c in rs:
        if rop in (ALL, op) and supported(alg, op, c): out = (alg, c)
  return out
def check(q, rules):
  mgr = q._recipe_manager; stored = [r.op_config for rs in mgr._scope_configs.values() for r in rs]
  for op in (FC, BMM, OP.CONV_2D):
    for s in SCOPES:
      got = mgr.get_quantization_configs(op, s)
      assert got == ref_get(rules, op, s), (op, s, got)
      assert all(got[1] is not c for c in stored + CONFIGS)  # always a copy
  for e in q.get_quantization_recipe():  # annotated export
    assert e['rule_id'] == rm.rule_id(e['regex'], e['operation']) and e['comment'] == ''
model, rng = 'ai_edge_quantizer/tests/models/single_fc.tflite', random.Random(11)
for trial in range(150):
  q, rules = quantizer.Quantizer(model), {}
  for step in range(rng.randint(1, 7)):
    args = (rng.choice(REGEXES), rng.choice(OPS), rng.choice(CONFIGS), rng.choice(ALGS))
    kind = rng.random()
    if kind < 0.6:  # add (maybe rejected: must be a ValueError subclass, no state change)
      try: ref_add(rules, *args); ok = True
      except ValueError: ok = False
      try: q.update_quantization_recipe(*args); assert ok
      except rm.UnsupportedQuantizationConfigError: assert not ok
    elif kind < 0.8:  # round trip of the annotated export with a hand-written comment
      exported = json.loads(json.dumps(q.get_quantization_recipe()))
      for e in exported: e['comment'] = 'edited by hand'
      q.load_quantization_recipe(exported)
    else:  # load whose LAST rule is rejected: nothing is kept
      bad = q.get_quantization_recipe() + [dict(regex='x', operation='FULLY_CONNECTED',
          algorithm_key=A.MIN_MAX_UNIFORM_QUANT, op_config=cfg(17).to_dict())]
      try: q.load_quantization_recipe(bad); raise SystemExit('load must fail')
      except ValueError: rules = {}
      assert q.get_quantization_recipe() == []
    check(q, rules)
# Wrong Python type -> TypeError; invalid regex accepted at add, re.error at use.
q = quantizer.Quantizer(model)
for bad in ({'weight_tensor_config': None}, 8):
  try: q.update_quantization_recipe('.*', ALL, bad); raise SystemExit('no TypeError')
  except TypeError: pass
q.update_quantization_recipe('.*', FC, cfg(8)); q.update_quantization_recipe('(', FC, cfg(4))
try: q._recipe_manager.get_quantization_configs(FC, 'a'); raise SystemExit('no re.error')
except re.error: pass
# End to end: later rule wins in quantize(); saved recipe reloads to the same result.
q = quantizer.Quantizer(model); q.update_quantization_recipe('.*', ALL, cfg(8, compute_precision=INT))
q.update_quantization_recipe('.*', FC, algorithm_key=A.NO_QUANTIZE)
r0 = q.quantize()  # FC overridden to NO_QUANTIZE: weights stay float
q.update_quantization_recipe('.*', FC, cfg(8, compute_precision=INT)); r1 = q.quantize()
with tempfile.TemporaryDirectory() as d:
  r1.save(d, 'm')
  r2 = quantizer.Quantizer(model, os.path.join(d, 'm_recipe.json')).quantize()
assert bytes(r1.quantized_model) == bytes(r2.quantized_model) and r1.recipe == r2.recipe
assert len(r1.quantized_model) < len(r0.quantized_model)  # int8 weights smaller
print('demo OK: resolution matches the last-applicable-rule model')
