"""C12 demo: recipes round-trip (compact/explicit/saved file) to the same rules and bytes."""
import glob, json, os, tempfile  # pylint: disable=multiple-imports
from ai_edge_quantizer import qtyping, quantizer, recipe_manager
from ai_edge_quantizer.utils import test_utils

ROOT = os.path.join(os.path.dirname(os.path.abspath(__file__)), 'ai_edge_quantizer')
MODEL = os.path.join(ROOT, 'tests/models/conv_fc_mnist.tflite')
RECIPES = os.path.join(ROOT, 'recipes')
T, C, Op = qtyping.TensorQuantizationConfig, qtyping.OpQuantizationConfig, qtyping.TFLOperationName
OPS = ['CONV_2D', 'FULLY_CONNECTED', 'AVERAGE_POOL_2D', 'RESHAPE', 'SOFTMAX', 'INPUT', 'OUTPUT']
SCOPES = ['sequential/conv2d/Relu', 'sequential/dense/MatMul;x', 'sequential/dense_1/MatMul', 'other']
DATA = test_utils.create_random_normal_input_data(MODEL, num_samples=4)

def resolve(recipe):  # (operator, scope) -> (algorithm, op config)
  rm = recipe_manager.RecipeManager()
  rm.load_quantization_recipe(recipe)
  return [rm.get_quantization_configs(o, s) for o in OPS for s in SCOPES]

def check(name, q):
  """Reloads q's recipe through every encoding and compares with the original."""
  recipe = q.get_quantization_recipe()
  calib = q.calibrate(DATA['serving_default']) if q.need_calibration else None
  result = q.quantize(calib)
  with tempfile.TemporaryDirectory() as d:
    result.save(d, 'compact')
    result.save(d, 'explicit', explicit_recipe=True)
    assert len(os.listdir(d)) == 4 and not glob.glob(d + '/*.tmp'), os.listdir(d)
    before = {f: open(os.path.join(d, f), 'rb').read() for f in os.listdir(d)}
    try:
      result.save(d, 'compact', explicit_recipe=True)
    except FileExistsError:
      pass  # Refused, and (next line) nothing was touched.
    assert before == {f: open(os.path.join(d, f), 'rb').read() for f in os.listdir(d)}
    explicit_file = json.load(open(os.path.join(d, 'explicit_recipe.json')))
    assert all(set(e['op_config']) == set(C.__dataclass_fields__) for e in explicit_file)
    reloads = {
        'json': json.loads(json.dumps(recipe)),
        'explicit': json.loads(json.dumps(q.get_quantization_recipe(explicit=True))),
        'file': os.path.join(d, 'compact_recipe.json'),
        'explicit_file': os.path.join(d, 'explicit_recipe.json'),
    }
    for how, source in reloads.items():
      fresh = quantizer.Quantizer(MODEL, source)
      assert fresh.get_quantization_recipe() == recipe, (name, how)
      assert resolve(fresh.get_quantization_recipe()) == resolve(recipe), (name, how)
      assert fresh.need_calibration == q.need_calibration
      assert fresh.quantize(calib).quantized_model == result.quantized_model, (name, how)
  print('ok', name, len(recipe), 'rules,', len(result.quantized_model), 'bytes')

# 1. Multi-step history: shipped SRQ recipe, then string-valued and enum-valued updates.
q = quantizer.Quantizer(MODEL, os.path.join(RECIPES, 'default_a8w8_recipe.json'))
q.update_quantization_recipe('.*/dense_1/.*', 'FULLY_CONNECTED', C(
    weight_tensor_config=T(8, True, 'CHANNELWISE', 'INT'), compute_precision='INTEGER'),
    'min_max_uniform_quantize')
q.update_quantization_recipe('.*conv2d.*', Op.CONV_2D, None, quantizer.AlgorithmName.NO_QUANTIZE)
check('srq+drq(strings)+no_quantize', q)
# 2. Weight-only base, float casting, skip_checks, and an overwrite of an earlier rule.
q = quantizer.Quantizer(MODEL, os.path.join(RECIPES, 'default_af32w8float_recipe.json'))
fp16 = C(weight_tensor_config=T(16, dtype=qtyping.TensorDataType.FLOAT))
q.update_quantization_recipe('.*/dense/.*', Op.FULLY_CONNECTED, fp16, 'float_casting')
q.update_quantization_recipe('.*/dense/.*', Op.CONV_2D, None, 'no_quantize')
q.update_quantization_recipe('.*/dense_1/.*', Op.FULLY_CONNECTED, C(
    weight_tensor_config=T(4, False, qtyping.QuantGranularity.CHANNELWISE),
    explicit_dequantize=True, skip_checks=True))
q.update_quantization_recipe('.*/dense/.*', 'FULLY_CONNECTED', fp16, 'float_casting')
check('weight_only+float_casting+skip_checks', q)
# 3. Entries without op_config (any algorithm) load to the default config; then reload again.
q = quantizer.Quantizer(MODEL, [{'regex': '.*', 'operation': '*', 'algorithm_key': a}
                                for a in ('min_max_uniform_quantize', 'no_quantize')])
ref = quantizer.Quantizer(MODEL)
ref.update_quantization_recipe('.*', Op.ALL_SUPPORTED, None, 'no_quantize')
assert q.get_quantization_recipe() == ref.get_quantization_recipe()
q.load_quantization_recipe(q.get_quantization_recipe(explicit=True))
check('no op_config -> defaults', q)
# 4. Every shipped recipe loads; the default ones re-export to themselves.
for path in sorted(glob.glob(os.path.join(RECIPES, '*.json'))):
  exported = quantizer.Quantizer(MODEL, path).get_quantization_recipe()
  if os.path.basename(path).startswith(('default_', 'dynamic_')):
    assert exported == json.load(open(path)), path
print('ok shipped recipes')
