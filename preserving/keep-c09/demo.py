"""C09 demo: calibration statistics stay exact, order-faithful and resumable."""
import copy, os, numpy as np
from ai_edge_quantizer import calibrator, quantizer
from ai_edge_quantizer.utils import test_utils, tfl_flatbuffer_utils, tfl_interpreter_utils

ROOT = os.path.join(os.path.dirname(os.path.abspath(__file__)), 'ai_edge_quantizer')
RECIPE = lambda n: os.path.join(ROOT, 'recipes', n)


def same(a, b):
  assert list(a) == list(b), 'tensor set/order differs'
  for t in a:
    for k in ('min', 'max'):
      x, y = np.asarray(a[t][k]), np.asarray(b[t][k])
      assert x.dtype == y.dtype and np.array_equal(x, y, equal_nan=True), (t, k)


def reference(model, ds, stats):
  """Checks `stats` against an independent interpreter run + EMA, and constants."""
  itp = tfl_interpreter_utils.create_tfl_interpreter(model)
  ema = {}
  for sample in ds:
    tfl_interpreter_utils.invoke_interpreter_signature(itp, sample)
    for name, v in tfl_interpreter_utils.get_tensor_name_to_content_map(itp).items():
      cur = np.array([v.min(), v.max()], dtype=np.float64)
      ema[name] = (0.95 * ema[name] + 0.05 * cur).astype(np.float32) if name in ema else cur.astype(np.float32)
    itp.reset_all_variables()
  fb = tfl_flatbuffer_utils.read_model(model)
  consts = {tfl_flatbuffer_utils.get_tensor_name(t): tfl_flatbuffer_utils.get_tensor_data(t, fb.buffers)
            for t in fb.subgraphs[0].tensors}
  for name, qsv in stats.items():
    if consts[name] is None:  # runtime tensor
      assert qsv['min'].dtype == np.float32 and qsv['min'].size == 1, name
      np.testing.assert_allclose([qsv['min'].item(), qsv['max'].item()], ema[name], rtol=1e-6, atol=0)
    else:  # constant: true per-tensor / per-channel min and max
      axes = tuple(i for i, d in enumerate(qsv['min'].shape) if d == 1 and consts[name].shape[i] != 1)
      axes = axes if qsv['min'].ndim == consts[name].ndim else None
      assert np.array_equal(qsv['min'].ravel(), consts[name].min(axis=axes).ravel()), name
      assert np.array_equal(qsv['max'].ravel(), consts[name].max(axis=axes).ravel()), name

for model_name in ('conv_fc_mnist.tflite', 'two_inputs_concatenation.tflite', 'single_fc_bias.tflite'):
  model = os.path.join(ROOT, 'tests/models', model_name)
  np.random.seed(7)
  ds = test_utils.create_random_normal_input_data(model, num_samples=6)['serving_default']
  q = quantizer.Quantizer(model, RECIPE('default_a8w8_recipe.json'))  # ONE quantizer, many calls
  full = q.calibrate(ds)
  reference(model, ds, full)
  same(full, q.calibrate(iter(ds)))  # repeated call on the shared session; one-shot stream
  # Every 2-way split, and a 6-session one-sample-at-a-time history, resumed on the same object.
  for cut in range(1, len(ds)):
    first = q.calibrate(ds[:cut])
    frozen = copy.deepcopy(first)
    same(full, q.calibrate(ds[cut:], previous_calibration_result=first))
    same(frozen, first)  # previous result not modified
  acc = None
  for sample in ds: acc = q.calibrate([sample], previous_calibration_result=acc)
  same(full, acc)
  # A stream error is a library error (RuntimeError) chaining the original; nothing leaks after it.
  def broken():
    yield from ds[3:5]
    raise OSError('disk gone')
  try:
    q.calibrate(broken()), exit('expected CalibrationDataError')
  except calibrator.CalibrationDataError as e:
    assert isinstance(e, RuntimeError) and isinstance(e.__cause__, OSError)
  try:
    q.calibrate(ds[:1] + [{'no_such_input': 0}]), exit('expected failure')  # aborted inside a sample
  except (ValueError, KeyError, TypeError):
    pass
  same(full, q.calibrate(ds))
  # The returned dict is the caller's: trashing it does not disturb the session.
  for t in acc: acc[t].clear()
  same(full, q.calibrate(ds[4:], previous_calibration_result=q.calibrate(ds[:4])))
  q.quantize(q.calibrate(ds))  # the result still feeds quantize()
  # Recipe changed between calls on the shared session == a brand-new quantizer.
  q.load_quantization_recipe(RECIPE('default_a16w8_recipe.json'))
  fresh = quantizer.Quantizer(model, RECIPE('default_a16w8_recipe.json'))
  same(fresh.calibrate(ds), q.calibrate(ds[2:], previous_calibration_result=q.calibrate(ds[:2])))
  print('OK', model_name, len(full), 'tensors')
print('C09 holds in all scenarios')
