"""Demo: output cache / lazy read-only samples / shared validation interpreters keep quantize() pure."""
import copy, hashlib, json, os, subprocess, sys, numpy as np
from ai_edge_quantizer import quantizer
from ai_edge_quantizer.utils import test_utils

ROOT = os.path.join(os.path.dirname(os.path.abspath(__file__)), 'ai_edge_quantizer')
MODEL = os.path.join(ROOT, 'tests/models/conv_fc_mnist.tflite')
SRQ = json.load(open(os.path.join(ROOT, 'recipes/default_a8w8_recipe.json')))
DRQ = json.load(open(os.path.join(ROOT, 'recipes/dynamic_wi8_afp32_recipe.json')))
sha = lambda b: hashlib.sha256(bytes(b)).hexdigest()

def same(a, b):  # deep equality that understands numpy arrays
  if isinstance(a, dict):
    return isinstance(b, dict) and list(a) == list(b) and all(same(a[k], b[k]) for k in a)
  if isinstance(a, (list, tuple)):
    return type(a) is type(b) and len(a) == len(b) and all(map(same, a, b))
  if isinstance(a, np.ndarray):
    return isinstance(b, np.ndarray) and a.dtype == b.dtype and np.array_equal(a, b)
  return type(a) is type(b) and a == b

def reference():  # what a fresh Quantizer computes from scratch: model, recipe, calibration
  data = test_utils.create_random_normal_input_data(MODEL, num_samples=4)['serving_default']
  q = quantizer.Quantizer(MODEL, copy.deepcopy(SRQ))
  calib = q.calibrate(s for s in data)  # a generator: consumed lazily
  return q, data, calib, q.quantize(calib)

if sys.argv[1:] == ['child']:  # fresh process: print the digests and stop
  q, _, calib, r = reference()
  q.load_quantization_recipe(DRQ)
  print(sha(r.quantized_model), sha(q.quantize(calib).quantized_model))
  sys.exit(0)

q1, data, calib, r1 = reference()
model_bytes = bytearray(open(MODEL, 'rb').read())
owned = dict(model=model_bytes, srq=SRQ, drq=DRQ, data=data, calib=calib)
before = copy.deepcopy(owned)
want_srq = sha(r1.quantized_model)

# 1. Repeated quantize: cache hit -> new result object, private copy of equal bytes.
r2 = q1.quantize(calib)
assert r2 is not r1 and r2.quantized_model is not r1.quantized_model
assert type(r2.quantized_model) is bytearray and sha(r2.quantized_model) == want_srq
r1.quantized_model[:64], r2.quantized_model[:] = b'\xff' * 64, b''  # the caller scribbles ...
assert sha(q1.quantize(calib).quantized_model) == want_srq  # ... the cache is unaffected

# 2. Explore recipes with one shared calibration result, validate in between, come back.
q1.load_quantization_recipe(DRQ)
want_drq = sha(q1.quantize(calib).quantized_model)
assert want_drq != want_srq
q1.validate({'serving_default': (s for s in data)})  # 4 samples, 2 interpreters in total
q1.load_quantization_recipe(SRQ)
calib2 = q1.calibrate(iter(data), previous_calibration_result=calib)  # resume: calib untouched
assert sha(q1.quantize(calib).quantized_model) == want_srq

# 3. A second Quantizer (model given as a bytearray) sharing the calibration result.
q2 = quantizer.Quantizer(model_bytes, SRQ)
assert sha(q2.quantize(calib).quantized_model) == want_srq
assert sha(q2.quantize(copy.deepcopy(calib)).quantized_model) == want_srq  # equal contents
q2.validate(); q2.load_quantization_recipe(DRQ)
assert sha(q2.quantize(calib).quantized_model) == want_drq
assert sha(q2.quantize(calib2).quantized_model) == want_drq  # weight-only: calib is irrelevant

# 4. Never stale: edit the caller's calibration result IN PLACE, the key follows the contents.
q2.load_quantization_recipe(SRQ)
edited = copy.deepcopy(calib)
name = next(k for k, v in edited.items() if np.size(v['max']) == 1)
edited[name]['max'] *= 3.0
got = sha(q2.quantize(edited).quantized_model)
quantizer.clear_quantized_model_cache()
assert got == sha(q2.quantize(edited).quantized_model) != want_srq  # hit == recomputation
edited[name]['max'] /= 3.0
assert same(edited, calib) and sha(q2.quantize(edited).quantized_model) == want_srq

# 5. Nothing owned by the caller changed; fresh processes with other hash seeds agree.
assert same(owned, before), 'a caller-owned object was modified'
for seed in ('0', '12345'):
  out = subprocess.run([sys.executable, __file__, 'child'], check=True, capture_output=True,
                       text=True, env=dict(os.environ, PYTHONHASHSEED=seed, TF_CPP_MIN_LOG_LEVEL='3'))
  assert out.stdout.split() == [want_srq, want_drq], out.stdout
print('OK', quantizer.get_quantized_model_cache_stats(), want_srq[:16], want_drq[:16])
