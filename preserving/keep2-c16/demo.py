"""Demo: the large-model path (64-byte layout) still describes the same model."""
import os, sys
os.environ.setdefault('TF_CPP_MIN_LOG_LEVEL', '3')
import numpy as np
from ai_edge_quantizer import model_modifier, params_generator, quantizer, recipe_manager
from ai_edge_quantizer.utils import test_utils, tfl_interpreter_utils
from tensorflow.lite.tools import flatbuffer_utils

ROOT = os.path.dirname(os.path.abspath(__file__)) + '/ai_edge_quantizer'
MODELS, RECIPES = ROOT + '/tests/models/', ROOT + '/recipes/'

def hook(on):  # threshold 0 => every model with constants takes the large-model path
  os.environ['AI_EDGE_QUANTIZER_VERIF'] = '1' if on else '0'
  os.environ['AI_EDGE_QUANTIZER_VERIF_LARGE_MODEL_THRESHOLD'] = '0'

def strip(m):  # blank out everything that legitimately differs: data/offset/size
  for b in m.buffers:
    b.data, b.offset, b.size = None, 0, 0
  return bytes(flatbuffer_utils.convert_object_to_bytearray(m))

def run(model_bytes, data):
  interp = tfl_interpreter_utils.create_tfl_interpreter(bytes(model_bytes))
  return [tfl_interpreter_utils.invoke_interpreter_signature(interp, s, key)
          for key, samples in data.items() for s in samples]

def check(tag, small, large, data):
  ms = flatbuffer_utils.read_model_from_bytearray(bytearray(small))
  ml = flatbuffer_utils.convert_bytearray_to_object(bytearray(large))  # raw offsets
  assert len(ms.buffers) == len(ml.buffers)
  assert len(large) % 64 == 0 and bytes(large[-64:]) == bytes(64), 'tail padding'
  spans = []
  for i, (bs, bl) in enumerate(zip(ms.buffers, ml.buffers)):
    want = b'' if bs.data is None else bytes(bytearray(bs.data))
    if not want:
      assert bl.data is None or not len(bl.data), i
      continue
    assert bl.data is None and bl.size == len(want), i
    assert bl.offset % 16 == 0 and bl.offset % 64 == 0, (i, bl.offset)
    assert bl.offset + bl.size <= len(large), i
    assert bytes(large[bl.offset:bl.offset + bl.size]) == want, i
    spans.append((bl.offset, bl.offset + bl.size))
  assert spans == sorted(spans), 'buffer index order'
  assert all(a[1] <= b[0] for a, b in zip(spans, spans[1:])), 'overlap'
  assert strip(ms) == strip(ml), 'other fields differ'
  outs = list(zip(run(small, data), run(large, data)))
  assert outs and all(a.keys() == b.keys() and all(np.array_equal(a[k], b[k]) for k in a) for a, b in outs)
  print('OK %-38s buffers=%d external=%d bytes=%d' % (tag, len(ml.buffers), len(spans), len(large)))

def both(q, calib=None):
  hook(False); small = q.quantize(calib).quantized_model
  hook(True); large = q.quantize(calib).quantized_model; hook(False)
  assert bytes(small) != bytes(large)
  return small, large

for name, rec in [('single_fc_bias', 'default_a16w8_recipe'), ('weight_sharing_fcs', 'dynamic_wi8_afp32_recipe'),
                  ('conv_fc_mnist', 'default_a8w8_recipe'), ('two_signatures', 'default_af32w4float_recipe'),
                  ('branching_conv_fc', 'default_af32w4float_recipe')]:
  path = MODELS + name + '.tflite'
  data = test_utils.create_random_normal_input_data(path, num_samples=4)
  q = quantizer.Quantizer(path, RECIPES + rec + '.json')
  calib = None
  for key, samples in data.items():  # multi-step calibration, one signature at a time
    calib = q.calibrate(samples, key, previous_calibration_result=calib)
  check(name + '/' + rec[8:-7], *both(q, calib), data)
  # multi-step: swap the recipe on the same Quantizer and serialize again, twice
  q.load_quantization_recipe(RECIPES + 'default_af32w8float_recipe.json')
  s2, l2 = both(q)
  check(name + '/reloaded', s2, l2, data)
  hook(True); assert bytes(q.quantize().quantized_model) == bytes(l2), 'not deterministic'; hook(False)

# multi-step on one ModelModifier: constant map is rebuilt for every call
path = MODELS + 'conv_fc_mnist.tflite'
rm = recipe_manager.RecipeManager(); rm.load_quantization_recipe(q.get_quantization_recipe())  # w8 float recipe
params = params_generator.ParamsGenerator(path).generate_quantization_parameters(rm)
mm = model_modifier.ModelModifier(open(path, 'rb').read())
small = mm.modify_model(params); hook(True); l1 = mm.modify_model(params); l2 = mm.modify_model(params); hook(False)
assert bytes(l1) == bytes(l2) and bytes(mm.modify_model(params)) == bytes(small)
check('reused ModelModifier', small, l2, test_utils.create_random_normal_input_data(path, num_samples=2))
print('all good'); sys.exit(0)
