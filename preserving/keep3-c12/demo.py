"""Demo: saved recipes still reload to the same rules and the same model."""
import glob, json, os, pickle, tempfile, types
import numpy as np
from ai_edge_quantizer import qtyping, quantizer, recipe as recipe_lib

ROOT = os.path.join(os.path.dirname(os.path.abspath(__file__)), 'ai_edge_quantizer')
MODEL = os.path.join(ROOT, 'tests/models/conv_fc_mnist.tflite')
Op, TC, OC = qtyping.TFLOperationName, qtyping.TensorQuantizationConfig, qtyping.OpQuantizationConfig
SCOPES = ['sequential/conv2d/Relu;', 'sequential/dense/MatMul;x', 'sequential/dense_1/MatMul', '']
DATA = [{'conv2d_input': np.random.default_rng(i).uniform(size=(1, 28, 28, 1)).astype(np.float32)} for i in range(4)]

def resolve(q):
  return [q._recipe_manager.get_quantization_configs(op, s) for op in Op for s in SCOPES]

def plain(x):  # Only builtin JSON types, no enum members.
  if isinstance(x, dict): return all(type(k) is str and plain(v) for k, v in x.items())
  if isinstance(x, list): return all(plain(v) for v in x)
  return type(x) in (str, int, bool, float)

def check_round_trip(q, tmp, name):
  rec = q.get_quantization_recipe()
  assert plain(rec), rec
  assert json.loads(json.dumps(rec)) == rec
  calib = q.calibrate(DATA) if q.need_calibration else None
  result = q.quantize(calib)
  folder = os.path.join(tmp, name, 'nested')  # Does not exist yet.
  result.save(folder, name)
  path = os.path.join(folder, name + '_recipe.json')
  text = open(path, encoding='utf-8').read()
  assert text.endswith('\n') and text == json.dumps(json.loads(text), indent=2, sort_keys=True) + '\n'
  assert json.loads(text) == rec
  bom = os.path.join(folder, 'bom.json')
  open(bom, 'wb').write(b'\xef\xbb\xbf' + text.encode('utf-8'))
  for source in (path, bom, json.loads(text), result.recipe, result.recipe.to_list()):
    q2 = quantizer.Quantizer(MODEL, source)
    assert q2.get_quantization_recipe() == rec, source
    assert resolve(q2) == resolve(q)
    assert q2.need_calibration == q.need_calibration
    assert q2.quantize(calib).quantized_model == result.quantized_model
  # Result recipe is a read-only snapshot, independent of later updates.
  assert isinstance(result.recipe, tuple) and all(isinstance(r, types.MappingProxyType) for r in result.recipe)
  assert result.recipe == rec and pickle.loads(pickle.dumps(result.recipe)) == rec
  try:
    result.recipe[0]['regex'] = 'x'; raise SystemExit('recipe is writable')
  except TypeError: pass
  before = {f: open(f, 'rb').read() for f in glob.glob(folder + '/*')}
  try:
    result.save(folder, name); raise SystemExit('overwrote the model')
  except FileExistsError: pass
  assert before == {f: open(f, 'rb').read() for f in glob.glob(folder + '/*')}
  return rec

with tempfile.TemporaryDirectory() as tmp:
  for i, f in enumerate(sorted(glob.glob(os.path.join(ROOT, 'recipes/*.json')))):
    q = quantizer.Quantizer(MODEL, f)  # Every shipped recipe loads.
    rec = check_round_trip(q, tmp, 'shipped%d' % i)
    if os.path.basename(f).startswith(('default_', 'dynamic_')):
      assert rec == json.load(open(f)), f  # Defaults re-export to themselves.
  assert quantizer.Quantizer(MODEL, recipe_lib.dynamic_wi8_afp32()).get_quantization_recipe() == recipe_lib.dynamic_wi8_afp32()
  # A history of loads/updates: enum and string valued fields, all algorithms.
  q = quantizer.Quantizer(MODEL, os.path.join(ROOT, 'recipes/default_a8w8_recipe.json'))
  q.update_quantization_recipe('.*/dense/.*', Op.FULLY_CONNECTED, OC(
      weight_tensor_config=TC(4, True, qtyping.QuantGranularity.CHANNELWISE),
      compute_precision=qtyping.ComputePrecision.INTEGER), quantizer.AlgorithmName.MIN_MAX_UNIFORM_QUANT)
  check_round_trip(q, tmp, 'step1')
  q.update_quantization_recipe('.*/dense_1/.*', 'FULLY_CONNECTED', OC(
      weight_tensor_config=TC(16, dtype='FLOAT'), compute_precision='FLOAT', explicit_dequantize=True), 'float_casting')
  q.update_quantization_recipe('.*conv2d.*', Op.CONV_2D, None, quantizer.AlgorithmName.NO_QUANTIZE)
  check_round_trip(q, tmp, 'step2')
  q.update_quantization_recipe('.*/dense/.*', Op.FULLY_CONNECTED, OC(
      weight_tensor_config=TC(3, False, 'TENSORWISE'), compute_precision='FLOAT', explicit_dequantize=True,
      skip_checks=True))
  q.update_quantization_recipe('.*conv2d.*', '*', OC(weight_tensor_config=TC(8, granularity='CHANNELWISE')))
  rec = check_round_trip(q, tmp, 'step3')
  q.load_quantization_recipe(rec[::-1]); check_round_trip(q, tmp, 'step4')
  for r in rec:  # to_json/from_json/to_dict/from_dict agree; from_dict gives enum members.
    c = OC.from_json(r['op_config'])
    assert OC.from_json(c.to_json()) == c == OC.from_dict(c.to_dict()) and c.to_dict() == r['op_config']
    assert isinstance(c.compute_precision, qtyping.ComputePrecision)
print('OK: property C12 holds on all demo scenarios')
