"""Demo: quantize/calibrate stay pure after the copy/cache refactoring."""
import copy, hashlib, json, os, subprocess, sys
import numpy as np
from ai_edge_quantizer import quantizer, qtyping
from ai_edge_quantizer.utils import test_utils, tfl_flatbuffer_utils

ROOT = os.path.join(os.path.dirname(os.path.abspath(__file__)), 'ai_edge_quantizer')
MODEL = os.path.join(ROOT, 'tests/models/conv_fc_mnist.tflite')
A8W8 = json.load(open(os.path.join(ROOT, 'recipes/default_a8w8_recipe.json')))
A16W8 = json.load(open(os.path.join(ROOT, 'recipes/default_a16w8_recipe.json')))
W8 = json.load(open(os.path.join(ROOT, 'recipes/dynamic_wi8_afp32_recipe.json')))
sha = lambda b: hashlib.sha256(bytes(b)).hexdigest()


def same(a, b):  # deep equality that understands numpy arrays
  if isinstance(a, dict):
    return isinstance(b, dict) and list(a) == list(b) and all(same(a[k], b[k]) for k in a)
  if isinstance(a, (list, tuple)):
    return type(a) is type(b) and len(a) == len(b) and all(map(same, a, b))
  return bool(np.array_equal(np.asarray(a), np.asarray(b)))


def data():
  return test_utils.create_random_normal_input_data(MODEL, num_samples=3, random_seed=7)['serving_default']


def fresh():  # reference: one fresh Quantizer per output, no history
  out = {}
  q = quantizer.Quantizer(MODEL, A8W8)
  c = q.calibrate(data())
  out['a8w8'] = sha(q.quantize(copy.deepcopy(c)).quantized_model)
  out['a16w8'] = sha(quantizer.Quantizer(MODEL, A16W8).quantize(copy.deepcopy(c)).quantized_model)
  out['w8'] = sha(quantizer.Quantizer(MODEL, W8).quantize().quantized_model)
  q = quantizer.Quantizer(MODEL, A8W8)
  q.update_quantization_recipe('.*', qtyping.TFLOperationName.FULLY_CONNECTED, algorithm_key='no_quantize')
  out['mixed'] = sha(q.quantize(copy.deepcopy(c)).quantized_model)
  return out


if '--child' in sys.argv:
  print(json.dumps(fresh()))
  sys.exit(0)

ref = fresh()
model = bytearray(tfl_flatbuffer_utils.get_model_content(MODEL))
model0, recipe, recipe0 = bytes(model), copy.deepcopy(A8W8), copy.deepcopy(A8W8)
q1, q2 = quantizer.Quantizer(model, recipe), quantizer.Quantizer(MODEL, A16W8)
ds = data(); ds0 = copy.deepcopy(ds)
prev = q1.calibrate(ds[:1]); prev0 = copy.deepcopy(prev)
calib = q1.calibrate(ds[1:], previous_calibration_result=prev); calib0 = copy.deepcopy(calib)
assert same(calib, quantizer.Quantizer(MODEL, A8W8).calibrate(ds0))  # resume == one go
# Long history on two quantizers sharing one calibration result.
r1 = q1.quantize(calib); assert sha(r1.quantized_model) == ref['a8w8']
assert sha(q2.quantize(calib).quantized_model) == ref['a16w8']
q1.validate({'serving_default': ds[:1]})
assert sha(q1.quantize(calib).quantized_model) == ref['a8w8']  # cached parse, same bytes
q1.load_quantization_recipe(W8); assert sha(q1.quantize().quantized_model) == ref['w8']
q1.load_quantization_recipe(A16W8); assert sha(q1.quantize(calib).quantized_model) == ref['a16w8']
q1.load_quantization_recipe(recipe)
q1.update_quantization_recipe('.*', qtyping.TFLOperationName.FULLY_CONNECTED, algorithm_key='no_quantize')
r2 = q1.quantize(calib); assert sha(r2.quantized_model) == ref['mixed']
q2.load_quantization_recipe(A8W8); q2.calibrate(ds, previous_calibration_result=calib)
assert sha(q2.quantize(calib).quantized_model) == ref['a8w8']
# Nothing owned by the caller changed.
assert bytes(model) == model0 and recipe == recipe0 and same(ds, ds0)
assert same(prev, prev0) and same(calib, calib0)
# Results are snapshots: old result keeps its recipe, no aliasing with the quantizer.
assert r1.recipe == recipe0 and r1.recipe is not r2.recipe and len(r2.recipe) == len(recipe0) + 1
r2.recipe.clear(); recipe[0]['regex'] = 'nothing'
assert sha(q1.quantize(calib).quantized_model) == ref['mixed']
# The caller's bytearray is not pinned by the cache and a new model drops the cache.
model.extend(b'\0'); del model[-1:]
q1.float_model = tfl_flatbuffer_utils.get_model_content(MODEL)
assert sha(q1.quantize(calib).quantized_model) == ref['mixed']
# Fresh processes with other hash seeds give the same bytes.
for seed in ('0', '12345'):
  env = dict(os.environ, PYTHONHASHSEED=seed, TF_CPP_MIN_LOG_LEVEL='3')
  out = subprocess.run([sys.executable, __file__, '--child'], env=env, capture_output=True, text=True, check=True)
  assert json.loads(out.stdout.strip().splitlines()[-1]) == ref, seed
print('OK: property holds in all scenarios', ref)
