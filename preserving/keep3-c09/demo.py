"""Demo: calibration statistics stay exact, order-faithful and resumable."""
import copy, itertools, os, sys
os.environ.setdefault("TF_CPP_MIN_LOG_LEVEL", "3")
import numpy as np
from ai_edge_quantizer import calibrator, qtyping, quantizer
from ai_edge_quantizer.utils import calibration_utils, tfl_interpreter_utils as tiu

ROOT = os.path.join(os.path.dirname(os.path.abspath(__file__)), "ai_edge_quantizer")
MODEL = ROOT + "/tests/models/conv_fc_mnist.tflite"
RECIPE = ROOT + "/recipes/default_a8w8_recipe.json"
rng = np.random.default_rng(3)
DATA = [{"conv2d_input": (rng.normal(size=(1, 28, 28, 1)) * (i + 1)).astype(np.float32)}
        for i in range(5)]

def same(x, y):  # Exact: names, keys, types, dtypes, shapes and bits.
  if set(x) != set(y) or any(set(x[n]) != set(y[n]) for n in x):
    return False
  pairs = [(x[n][k], y[n][k]) for n in x for k in x[n]]
  return all(type(u) is type(v) and u.dtype == v.dtype and u.shape == v.shape
             and u.tobytes() == v.tobytes() for u, v in pairs)

q = quantizer.Quantizer(MODEL, RECIPE)
assert q.need_calibration
full = q.calibrate(DATA)

# 1. Reference: own interpreter run, EMA(0.95) of per-sample min/max, in order.
interp, ref = tiu.create_tfl_interpreter(MODEL), {}
for sample in DATA:
  tiu.invoke_interpreter_signature(interp, sample)
  for name, content in tiu.get_tensor_name_to_content_map(interp).items():
    cur = {k: f(content, axis=None, keepdims=True) for k, f in (("min", np.min), ("max", np.max))}
    ref[name] = cur if name not in ref else {
        k: 0.95 * ref[name][k] + (1.0 - 0.95) * cur[k] for k in cur}
consts = {n for n, v in q.calibrate([]).items() if v}  # Seeded at init; runtime ones are {}.
runtime = [n for n in full if n not in consts]
assert runtime and all(same({n: full[n]}, {n: ref[n]}) for n in runtime), "runtime stats"
# Constants: true per-tensor (a8w8 FC/conv weights are channelwise) min/max, never averaged.
for n in consts:
  data = tiu.get_tensor_name_to_content_map(interp)[n]
  assert full[n]["min"].min() == data.min() and full[n]["max"].max() == data.max(), n
  assert full[n]["min"].dtype == data.dtype

# 2. Every split into resumed sessions == single pass; previous result untouched.
for k in range(len(DATA)):
  for cuts in itertools.combinations(range(1, len(DATA)), k):
    prev, bounds = None, [0, *cuts, len(DATA)]
    for lo, hi in zip(bounds, bounds[1:]):
      snapshot = copy.deepcopy(prev)
      cur = q.calibrate(DATA[lo:hi], previous_calibration_result=prev)
      assert prev is None or same(prev, snapshot), "previous result modified"
      prev = cur
    assert same(prev, full), cuts
assert not same(q.calibrate(DATA[::-1]), full), "order must matter"

# 3. Returned objects are fresh: vandalising one result does not leak anywhere.
first = q.calibrate(DATA[:2])
keep = copy.deepcopy(first)
second = q.calibrate(DATA[2:], previous_calibration_result=first)
for v in second.values():
  for arr in v.values():
    arr.fill(123.0)
assert same(first, keep) and same(q.calibrate(DATA[2:], previous_calibration_result=first), full)

# 4. QsvStat form (and a mix of both forms) is accepted as previous result.
calib = calibrator.Calibrator(MODEL)
calib.load_model_qsvs(first)
stats = calib.get_model_qsv_stats()
assert all(isinstance(s, qtyping.QsvStat) for s in stats.values())
mixed = {n: (s if i % 2 else first[n]) for i, (n, s) in enumerate(stats.items())}
for prev in (stats, mixed):
  assert same(q.calibrate(DATA[2:], previous_calibration_result=prev), full)
assert same({n: s.to_qsv() for n, s in stats.items()}, first), "stats modified"
# Calibrator reuse + explicit utils wrapper as update function give the same numbers.
calib.calibrate(DATA[2:], q._recipe_manager, qsv_update_func=calibration_utils.moving_average_update)
assert same(calib.get_model_qsvs(), full) and calib.get_model_qsvs() is not calib.get_model_qsvs()
assert q.quantize(full).quantized_model is not None
print("OK: %d runtime + %d constant tensors, all %d splits exact" % (len(runtime), len(consts), 2 ** (len(DATA) - 1)))
sys.exit(0)
