"""Large-model (external buffer) serialization == ordinary serialization."""
import json, os, tempfile, numpy as np
from ai_edge_quantizer import quantizer
from ai_edge_quantizer.utils import test_utils, tfl_interpreter_utils as iu
from tensorflow.lite.tools import flatbuffer_utils as fu

ROOT = os.path.join(os.path.dirname(os.path.abspath(__file__)), 'ai_edge_quantizer')
M = lambda n: os.path.join(ROOT, 'tests/models', n + '.tflite')
R = lambda n: os.path.join(ROOT, 'recipes', n + '.json')


def both(q, calib=None):
  """Quantizes through the ordinary and through the large-model path."""
  os.environ.pop('AI_EDGE_QUANTIZER_VERIF', None)
  small = q.quantize(calib).quantized_model
  os.environ['AI_EDGE_QUANTIZER_VERIF'] = '1'
  os.environ['AI_EDGE_QUANTIZER_VERIF_LARGE_MODEL_THRESHOLD'] = '0'
  try:
    result = q.quantize(calib)
  finally:
    os.environ.pop('AI_EDGE_QUANTIZER_VERIF')
  return small, result

def strip(model):
  for b in model.buffers:
    b.data, b.offset, b.size = None, 0, 0
  return fu.convert_object_to_bytearray(model)

def check(name, q, calib=None):
  small, result = both(q, calib)
  large = result.quantized_model
  assert type(small) is bytearray and type(large) is bytearray
  ms, ml = fu.read_model_from_bytearray(small), fu.convert_bytearray_to_object(large)
  assert len(ms.buffers) == len(ml.buffers) and len(large) % 16 == 0
  end, n_ext = 0, 0
  for bs, bl in zip(ms.buffers, ml.buffers):
    want = b'' if bs.data is None else bytes(bs.data)
    if not want:  # None / empty buffers are untouched
      assert (bl.data is None) == (bs.data is None) and not bl.offset and not bl.size
      continue
    assert bl.data is None and bl.offset % 16 == 0 and bl.offset >= end > -1
    assert bl.offset + bl.size <= len(large) and bl.size == len(want)
    assert bytes(large[bl.offset:bl.offset + bl.size]) == want
    end, n_ext = bl.offset + bl.size, n_ext + 1
  assert n_ext > 0 and strip(ms) == strip(ml), 'other fields differ'
  # Interpreter loads both (the large one also after save/reload) and agrees.
  with tempfile.TemporaryDirectory() as d:
    result.save(d, 'm')
    saved = open(os.path.join(d, 'm.tflite'), 'rb').read()
  assert saved == bytes(large)
  data = test_utils.create_random_normal_input_data(q.float_model, num_samples=2)
  its, itl = iu.create_tfl_interpreter(small), iu.create_tfl_interpreter(saved)
  for sig, samples in data.items():
    for s in samples:
      os_ = iu.invoke_interpreter_signature(its, s, sig)
      ol = iu.invoke_interpreter_signature(itl, s, sig)
      assert os_.keys() == ol.keys() and all(np.array_equal(os_[k], ol[k]) for k in os_), name
  print('OK %-42s buffers=%d external=%d bytes=%d' % (name, len(ml.buffers), n_ext, len(large)))

for model in ['conv_fc_mnist', 'single_fc_bias', 'weight_sharing_fcs', 'embedding_lookup', 'two_signatures']:
  for rcp in ['dynamic_wi8_afp32_recipe', 'default_af32w8float_recipe', 'default_af32w4float_recipe']:
    check(model + ' x ' + rcp, quantizer.Quantizer(M(model), R(rcp)))
# Multi-step: one Quantizer, recipe replaced, calibrated (incrementally), re-quantized.
q = quantizer.Quantizer(M('conv_fc_mnist'), R('dynamic_wi8_afp32_recipe'))
check('step1 dynamic', q)
q.load_quantization_recipe(R('default_a8w8_recipe'))
assert q.need_calibration
rnd = lambda seed: list(test_utils.create_random_normal_input_data(q.float_model, 2, seed).values())[0]
c1 = q.calibrate(rnd(1))
check('step2 a8w8 after calibrate', q, c1)
c2 = q.calibrate(rnd(7), previous_calibration_result=c1)
check('step3 a8w8 after second calibrate', q, c2)
q.load_quantization_recipe(R('default_a16w8_recipe'))
check('step4 a16w8 same calibration', q, c2)
# A float model that already uses external buffers (bytes-typed buffer data once read) as input.
noop = [dict(json.load(open(R('dynamic_wi8_afp32_recipe')))[0], regex='matches_nothing')]
for model in ['single_fc_bias', 'conv_fc_mnist']:
  ext = both(quantizer.Quantizer(M(model), noop))[1].quantized_model
  check('step5 external-buffer %s as input' % model, quantizer.Quantizer(ext, R('dynamic_wi8_afp32_recipe')))
print('ALL OK')
