"""Demo: calibration statistics stay exact, order-faithful and resumable."""
import copy, os
import numpy as np
from ai_edge_quantizer import quantizer
from ai_edge_quantizer.utils import calibration_utils, test_utils, tfl_interpreter_utils as tiu

ROOT = os.path.join(os.path.dirname(os.path.abspath(__file__)), 'ai_edge_quantizer')
MODEL = os.path.join(ROOT, 'tests/models/conv_fc_mnist.tflite')
RECIPE = os.path.join(ROOT, 'recipes/default_a8w8_recipe.json')
KEY = calibration_utils.CALIBRATION_INFO_KEY
q = quantizer.Quantizer(MODEL, RECIPE)
D = list(test_utils.create_random_normal_input_data(MODEL, 6).values())[0]

def same(a, b):
  assert set(a) == set(b), set(a) ^ set(b)
  for k in a:
    if k == KEY: continue
    assert set(a[k]) == set(b[k]) and set(a[k]) in (set(), {'min', 'max'}), k
    for s in a[k]:
      x, y = a[k][s], b[k][s]
      assert isinstance(x, np.ndarray) and x.dtype == y.dtype, (k, x.dtype)
      assert x.shape == y.shape and np.array_equal(x, y), (k, s, x, y)

def gen(samples, fail_after=None, log=None):  # one-shot stream
  for i, s in enumerate(samples):
    if fail_after is not None and i == fail_after:
      raise IOError('stream broke at sample %d' % i)
    if log is not None:
      log.append(i)
    yield s

# 1. One pass (list) == one pass (one-shot generator) == independent reference.
full = q.calibrate(D)
same(full, q.calibrate(gen(D)))
interp, ref = tiu.create_tfl_interpreter(MODEL), {}
for sample in D:
  tiu.invoke_interpreter_signature(interp, sample, None)
  for name, t in tiu.get_tensor_name_to_content_map(interp).items():
    lo, hi = np.float32(np.min(t)), np.float32(np.max(t))
    ref[name] = (lo, hi) if name not in ref else (
        0.95 * ref[name][0] + (1.0 - 0.95) * lo,
        0.95 * ref[name][1] + (1.0 - 0.95) * hi)
init = q.calibrate([])  # constants only: runtime tensors are still empty
runtime = [n for n, v in init.items() if not v]
assert len(runtime) >= 3 and all(full[n] for n in runtime)
for name in runtime:  # exact moving average of the true per-sample min/max
  for i, s in enumerate(('min', 'max')):
    assert full[name][s].item() == np.float32(ref[name][i]), (name, s)
same({n: v for n, v in full.items() if n not in runtime},
     {n: v for n, v in init.items() if v})  # constants: unchanged by samples

# 2. Every split into resumed sessions == one pass; previous result untouched;
#    bookkeeping accumulates and is ignored on load.
for cut in range(1, len(D)):
  first = q.calibrate(gen(D[:cut]), record_calibration_info=True)
  assert first[KEY] == {'num_samples': cut}
  snapshot = copy.deepcopy(first)
  second = q.calibrate(gen(D[cut:]), previous_calibration_result=first,
                       record_calibration_info=True)
  assert second[KEY] == {'num_samples': len(D)} and first[KEY] == snapshot[KEY]
  same(first, snapshot)
  same({k: v for k, v in second.items() if k != KEY}, full)

# 3. A stream failing after k samples returns the fold of exactly those k
#    samples; continuing on the rest gives the one-pass result.
for k in range(0, len(D)):
  log = []
  part = q.calibrate(gen(D, fail_after=k, log=log), record_calibration_info=True)
  assert part[KEY] == {'num_samples': k} and log == list(range(k))
  same({n: v for n, v in part.items() if n != KEY}, q.calibrate(D[:k]))
  rest = q.calibrate(gen(D[k:]), previous_calibration_result=part)
  same(rest, full)

# 4. quantize() ignores the bookkeeping entry and leaves its input untouched.
tagged = q.calibrate(D, record_calibration_info=True)
before = copy.deepcopy(tagged)
m1, m2 = q.quantize(tagged).quantized_model, q.quantize(full).quantized_model
assert bytes(m1) == bytes(m2) and tagged[KEY] == before[KEY]
same(tagged, before)
print('OK: %d tensors, %d runtime tensors exact vs reference' % (len(full), len(runtime)))
