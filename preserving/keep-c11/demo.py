"""Last-applicable-rule-wins still holds after the recipe manager rework."""
import collections
import os
from ai_edge_quantizer import algorithm_manager, default_policy, qtyping, quantizer, recipe_manager
from ai_edge_quantizer.utils import tfl_flatbuffer_utils

Op, Alg = qtyping.TFLOperationName, quantizer.AlgorithmName
MODEL = os.path.join(os.path.dirname(os.path.abspath(__file__)), 'ai_edge_quantizer/tests/models/conv_fc_mnist.tflite')
# Weight tensor of each op; the scopes are sequential/conv2d/..., sequential/dense/..., sequential/dense_1/...
WEIGHTS = {'conv': b'sequential/conv2d/Conv2D', 'fc1': b'arith.constant1', 'fc2': b'arith.constant'}
F32, I8, I4 = 0, 9, 17  # TFLite tensor types.


def drq(bits):
  return qtyping.OpQuantizationConfig(
      weight_tensor_config=qtyping.TensorQuantizationConfig(num_bits=bits),
      compute_precision=qtyping.ComputePrecision.INTEGER)


def weight_types(q):
  model = tfl_flatbuffer_utils.read_model(q.quantize().quantized_model)
  types = {t.name: t.type for t in model.subgraphs[0].tensors}
  return {op: types[name] for op, name in WEIGHTS.items()}


def rules(q):
  return [(r['regex'], str(r['operation'].value if hasattr(r['operation'], 'value') else r['operation']),
           r['op_config'].get('weight_tensor_config', {}).get('num_bits')) for r in q.get_quantization_recipe()]


q = quantizer.Quantizer(MODEL)
# 1. Multi-step history; scopes are consulted in order of first insertion: '.*', 'dense', 'dense_1'.
q.update_quantization_recipe('.*', Op.ALL_SUPPORTED, drq(8))
q.update_quantization_recipe('dense', Op.FULLY_CONNECTED, drq(4))  # 'dense' is found in both FC scopes.
assert weight_types(q) == {'conv': I8, 'fc1': I4, 'fc2': I4}
q.update_quantization_recipe('dense_1', Op.FULLY_CONNECTED, algorithm_key=Alg.NO_QUANTIZE)
q.update_quantization_recipe('.*', Op.FULLY_CONNECTED, drq(8))  # New op under '.*': still consulted first.
q.update_quantization_recipe('dense', Op.FULLY_CONNECTED, drq(4))  # Same regex + op: replaced in place.
assert rules(q) == [('.*', '*', 8), ('.*', 'FULLY_CONNECTED', 8), ('dense', 'FULLY_CONNECTED', 4),
                    ('dense_1', 'FULLY_CONNECTED', None)]
assert weight_types(q) == {'conv': I8, 'fc1': I4, 'fc2': F32}

# 2. A rejected add is a ValueError (now a subclass) and leaves the rules alone.
before = q.get_quantization_recipe()
try:
  q.update_quantization_recipe('dense_1', Op.FULLY_CONNECTED, drq(17))
  raise SystemExit('17 bit weights should be rejected')
except ValueError as err:
  assert isinstance(err, recipe_manager.RecipeRejectedError) and 'recipe unchanged' in str(err)
assert q.get_quantization_recipe() == before and weight_types(q) == {'conv': I8, 'fc1': I4, 'fc2': F32}

# 3. A load failing half-way is all or nothing; a good load replaces everything, then updates go on top.
bad = [before[2], dict(before[2], op_config=drq(17).to_dict())]
try:
  q.load_quantization_recipe(bad)
  raise SystemExit('recipe with 17 bit weights should be rejected')
except recipe_manager.RecipeRejectedError as err:
  assert err.entry_index == 1
assert q.get_quantization_recipe() == before and weight_types(q) == {'conv': I8, 'fc1': I4, 'fc2': F32}
q.load_quantization_recipe([before[3], before[2], before[0]])  # Now 'dense_1' < 'dense' < '.*'.
assert weight_types(q) == {'conv': I8, 'fc1': I8, 'fc2': I8}  # '.*' comes last and applies to all.
q.update_quantization_recipe('dense', Op.ALL_SUPPORTED, algorithm_key=Alg.NO_QUANTIZE)  # '*' resets 'dense'...
assert rules(q) == [('dense_1', 'FULLY_CONNECTED', None), ('dense', '*', None), ('.*', '*', 8)]  # ...in place.
q.update_quantization_recipe('.*', Op.ALL_SUPPORTED, drq(4))  # Does not move '.*' either.
q.update_quantization_recipe('conv', Op.CONV_2D, drq(8))
assert weight_types(q) == {'conv': I8, 'fc1': I4, 'fc2': I4}

# 4. An unsupported config does not shadow earlier rules; what is supported follows the active policy, also
#    when the policy changes between two resolutions of the same rules by the same quantizer.
default = default_policy.DEFAULT_CONFIG_CHECK_POLICY
no_fc = collections.OrderedDict((op, cfgs) for op, cfgs in default.items() if op != Op.FULLY_CONNECTED)
try:
  algorithm_manager.register_config_check_policy_func(Alg.MIN_MAX_UNIFORM_QUANT, no_fc)
  assert weight_types(q) == {'conv': I8, 'fc1': F32, 'fc2': F32}  # ('dense', '*', no_quantize) is the last one.
finally:
  algorithm_manager.register_config_check_policy_func(Alg.MIN_MAX_UNIFORM_QUANT, default)
assert weight_types(q) == {'conv': I8, 'fc1': I4, 'fc2': I4}
print('demo OK: last applicable rule wins in every scenario')
