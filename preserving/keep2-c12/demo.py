"""Demo: saved recipes still reload to the same rules and the same model."""
import glob, hashlib, itertools, json, os, tempfile
from ai_edge_quantizer import qtyping, quantizer
from ai_edge_quantizer.utils import test_utils

ROOT = os.path.join(os.path.dirname(os.path.abspath(__file__)), 'ai_edge_quantizer')
MODEL = os.path.join(ROOT, 'tests/models/conv_fc_mnist.tflite')
TQC, OQC = qtyping.TensorQuantizationConfig, qtyping.OpQuantizationConfig
SCOPES = ['sequential/conv2d/Conv2D', 'sequential/dense/MatMul;sequential/dense/Relu',
          'sequential/dense_1/MatMul', 'StatefulPartitionedCall:0', 'other']

def resolve(q):
  return [q._recipe_manager.get_quantization_configs(o, s)
          for o, s in itertools.product(qtyping.TFLOperationName, SCOPES)]

def check_round_trip(q, calib_data, tag):
  """save() -> fresh Quantizer(path) -> equal recipe, resolution and bytes."""
  recipe = q.get_quantization_recipe()
  keys = {'regex', 'operation', 'algorithm_key', 'op_config', 'rule_id', 'comment'}
  assert all(set(r) == keys for r in recipe)
  assert len({r['rule_id'] for r in recipe}) == len(recipe)
  calib = q.calibrate(calib_data) if q.need_calibration else None
  result = q.quantize(calib)
  with tempfile.TemporaryDirectory() as d:
    result.save(d, 'm')
    assert sorted(os.listdir(d)) == ['m.tflite', 'm_info.json', 'm_recipe.json']
    text = open(os.path.join(d, 'm_recipe.json')).read()
    assert text == json.dumps(json.loads(text), sort_keys=True, indent=1) and text[0] == '['
    info = json.load(open(os.path.join(d, 'm_info.json')))
    model_bytes = open(os.path.join(d, 'm.tflite'), 'rb').read()
    assert info['model_sha256'] == hashlib.sha256(model_bytes).hexdigest()
    assert os.path.getmtime(os.path.join(d, 'm_info.json')) >= max(
        os.path.getmtime(os.path.join(d, f)) for f in ('m.tflite', 'm_recipe.json'))
    wrapped = os.path.join(d, 'wrapped.json')
    json.dump({'schema': 2, 'rules': json.loads(text)}, open(wrapped, 'w'))
    fresh = [quantizer.Quantizer(MODEL, os.path.join(d, 'm_recipe.json')),
             quantizer.Quantizer(MODEL, wrapped),
             quantizer.Quantizer(MODEL, json.loads(json.dumps(recipe)))]
  for f in fresh:
    assert f.get_quantization_recipe() == recipe, tag
    assert resolve(f) == resolve(q), tag
    assert bytes(f.quantize(calib).quantized_model) == model_bytes, tag
  print('ok', tag, len(recipe), 'rules', [r['rule_id'] for r in recipe])
  return fresh[0]

def main():
  calib_data = next(iter(test_utils.create_random_normal_input_data(MODEL, 4).values()))
  # 1. Every shipped recipe loads; the default ones re-export to themselves.
  for path in sorted(glob.glob(os.path.join(ROOT, 'recipes/*.json'))):
    q = quantizer.Quantizer(MODEL, path)
    if 'sample' not in path:
      assert q.get_quantization_recipe() == json.load(open(path)), path
    check_round_trip(q, calib_data, os.path.basename(path))
  # 2. A history of load/update calls, with odd spellings, comments, enums and strings.
  q = quantizer.Quantizer(MODEL, os.path.join(ROOT, 'recipes/default_a8w8_recipe.json'))
  q.update_quantization_recipe('.*dense_1.*', 'fully_connected', OQC(
      weight_tensor_config=TQC(num_bits=4, granularity='CHANNELWISE'),
      compute_precision='INTEGER'), 'MIN_MAX_UNIFORM_QUANTIZE', comment='drq int4')
  q.update_quantization_recipe('.*conv2d.*', qtyping.TFLOperationName.CONV_2D,
                               algorithm_key='No_Quantize')
  assert q.get_quantization_recipe()[1]['operation'] == 'FULLY_CONNECTED'
  q = check_round_trip(q, calib_data, 'history-1')
  # 3. Keep editing the reloaded quantizer, then round trip again (and again).
  q.update_quantization_recipe('.*dense/.*', 'FULLY_CONNECTED', OQC(
      weight_tensor_config=TQC(num_bits=16, dtype=qtyping.TensorDataType.FLOAT),
      explicit_dequantize=True), quantizer.AlgorithmName.FLOAT_CASTING, comment='fp16')
  q.update_quantization_recipe('.*dense_1.*', '*', OQC(
      weight_tensor_config=TQC(num_bits=8), compute_precision='INTEGER',
      skip_checks=True), comment='replaces drq int4')
  q = check_round_trip(q, calib_data, 'history-2')
  rules = json.loads(json.dumps(q.get_quantization_recipe()))
  rules[0].update(rule_id='bogus', comment='edited by hand', algorithm_key='MIN_MAX_uniform_quantize')
  q.load_quantization_recipe(rules)  # Stale id is ignored, spelling is fixed.
  assert q.get_quantization_recipe()[0]['rule_id'] != 'bogus'
  check_round_trip(check_round_trip(q, calib_data, 'history-3'), calib_data, 'history-3-again')
  print('PROPERTY HOLDS')


if __name__ == '__main__':
  main()
