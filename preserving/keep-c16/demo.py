"""Large-model serialization still describes the same model as the ordinary one."""
import os
os.environ.update(TF_CPP_MIN_LOG_LEVEL='3', AI_EDGE_QUANTIZER_VERIF='1')
import numpy as np
from ai_edge_quantizer import model_modifier, quantizer
from ai_edge_quantizer.utils import test_utils, tfl_interpreter_utils as iu
from tensorflow.lite.tools import flatbuffer_utils as fbu

ROOT = os.path.join(os.path.dirname(os.path.abspath(__file__)), 'ai_edge_quantizer')
MODEL = lambda n: os.path.join(ROOT, 'tests/models', n + '.tflite')
RECIPE = lambda n: os.path.join(ROOT, 'recipes', n + '.json')
THR = 'AI_EDGE_QUANTIZER_VERIF_LARGE_MODEL_THRESHOLD'

def calibrate(q, model):
  c = None
  if q.need_calibration:
    for key, data in test_utils.create_random_normal_input_data(model, 2).items():
      c = q.calibrate(data, signature_key=key, previous_calibration_result=c)
  return c

def both(q, c):
  """Quantizes through the ordinary path, then through the large-model path."""
  os.environ.pop(THR, None)
  small = bytes(q.quantize(c).quantized_model)
  os.environ[THR] = '0'
  return small, bytes(q.quantize(c).quantized_model)

def check(small, large, model):
  ms, ml = fbu.convert_bytearray_to_object(small), fbu.convert_bytearray_to_object(large)
  assert len(ms.buffers) == len(ml.buffers) and len(large) % 16 == 0
  end, moved = 0, 0
  for bs, bl in zip(ms.buffers, ml.buffers):
    if bl.offset or bl.size:
      assert bl.data is None and bl.offset % 16 == 0 and bl.offset >= end
      end = bl.offset + bl.size
      assert end <= len(large) and large[bl.offset:end] == bs.data.tobytes()
      moved += 1
    else:  # buffers without data or with empty data stay where they are
      assert (bs.data is None) == (bl.data is None) and not any(len(d) for d in (bs.data, bl.data) if d is not None)
  resolved = fbu.read_model_from_bytearray(large)  # folds the constants back in
  for b in resolved.buffers:
    b.data = b.data if b.data is None else np.frombuffer(bytes(b.data), dtype=np.uint8)
  assert fbu.convert_object_to_bytearray(resolved) == small  # every other field equal
  its, itl = iu.create_tfl_interpreter(small), iu.create_tfl_interpreter(large)
  for key, data in test_utils.create_random_normal_input_data(model, 2, 7).items():
    for sample in data:
      outs, outl = (iu.invoke_interpreter_signature(i, sample, key) for i in (its, itl))
      assert outs.keys() == outl.keys()
      assert all(np.array_equal(outs[k], outl[k], equal_nan=True) for k in outs)
  return moved

# 1. single-step, several models x recipes.
for m, r in [('conv_fc_mnist', 'default_a8w8_recipe'), ('single_fc', 'dynamic_wi8_afp32_recipe'),
             ('two_signatures', 'default_af32w8float_recipe'), ('embedding_lookup', 'default_af32w4float_recipe')]:
  q = quantizer.Quantizer(MODEL(m), RECIPE(r))
  print('1', m, r, 'external buffers:', check(*both(q, calibrate(q, MODEL(m))), MODEL(m)))
# 2. multi-step on one Quantizer: quantize, change the recipe, re-calibrate, quantize again.
m = MODEL('conv_fc_mnist')
q = quantizer.Quantizer(m, RECIPE('dynamic_wi8_afp32_recipe'))
first = both(q, None)
q.load_quantization_recipe(RECIPE('default_a8w8_recipe'))
second = both(q, calibrate(q, m))
print('2 multi-step:', check(*first, m), check(*second, m))
# 3. input that already keeps its constants outside the flatbuffer, with a duplicated
#    and an empty buffer added; a reused ModelModifier gives it (bytes and bytearray alike).
obj = fbu.read_model(m)
dup, empty = type(obj.buffers[0])(), type(obj.buffers[0])()
dup.data, empty.data = obj.buffers[3].data.copy(), np.zeros(0, np.uint8)
obj.buffers += [dup, empty]
modifier = model_modifier.ModelModifier(fbu.convert_object_to_bytearray(obj))
os.environ[THR] = '0'
ext = modifier.modify_model({})
assert modifier.modify_model({}) == ext and len(modifier._constant_map) == len(obj.buffers)
for src in (bytes(ext), bytearray(ext)):
  q = quantizer.Quantizer(src, RECIPE('default_a8w8_recipe'))
  small, large = both(q, calibrate(q, m))
  ref = quantizer.Quantizer(modifier._model_content, RECIPE('default_a8w8_recipe'))
  assert (small, large) == both(ref, calibrate(ref, m))  # same as from the embedded input
  print('3 external input', type(src).__name__, check(small, large, m))
print('OK')
