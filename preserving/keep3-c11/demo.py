"""Demo: last-applicable-rule-wins still holds after the recipe_manager rework."""
import collections, itertools, json, random, re
from ai_edge_quantizer import algorithm_manager as am, qtyping, quantizer
from ai_edge_quantizer import recipe_manager as rm
Op, Alg, TQ = qtyping.TFLOperationName, rm.AlgorithmName, qtyping.TensorQuantizationConfig
CP, Cfg, N = qtyping.ComputePrecision, qtyping.OpQuantizationConfig, collections.Counter()
W8 = Cfg(weight_tensor_config=TQ(num_bits=8), compute_precision=CP.FLOAT, explicit_dequantize=True)
DRQ4 = Cfg(weight_tensor_config=TQ(num_bits=4), compute_precision=CP.INTEGER)
BAD = Cfg(weight_tensor_config=TQ(num_bits=17), compute_precision=CP.INTEGER)  # unsupported
FORCED = Cfg(weight_tensor_config=TQ(num_bits=17), skip_checks=True)
REGEXES = ['.*', 'Dense', 'Dense_1$', '^model/conv']
OPS = ['*', Op.ALL_SUPPORTED, 'FULLY_CONNECTED', Op.FULLY_CONNECTED, Op.CONV_2D, 'BATCH_MATMUL', Op.CUSTOM_OP]
ALGS = [Alg.MIN_MAX_UNIFORM_QUANT, 'min_max_uniform_quantize', Alg.NO_QUANTIZE, 'no_quantize', Alg.FLOAT_CASTING]
SCOPES = ['model/Dense/mm', 'model/Dense_1', 'model/conv1/op', 'other']
QUERY_OPS = [Op.FULLY_CONNECTED, Op.CONV_2D, Op.BATCH_MATMUL, Op.CUSTOM_OP, Op.ADD]
def supported(alg, op, cfg):
  if alg == Alg.NO_QUANTIZE: return True
  try: am.check_op_quantization_config(alg, op, cfg); return True
  except ValueError: return False
class Reference:  # Straight transcription of the property statement.
  def __init__(self): self.scopes = collections.OrderedDict()
  def add(self, regex, op, cfg, alg):
    if op == '*': self.scopes[regex] = [(op, cfg, alg)]; return True
    if not supported(alg, op, cfg): return False  # rejected, nothing stored
    rules = self.scopes.setdefault(regex, [])
    hit = [i for i, r in enumerate(rules) if r[0] == op] or [len(rules)]
    rules[hit[0]:hit[0] + 1] = [(op, cfg, alg)]  # replace in place, else append
    return True
  def resolve(self, op, scope):
    out = (Alg.NO_QUANTIZE, Cfg())
    for regex, rules in self.scopes.items():
      for r_op, cfg, alg in rules if re.search(regex, scope) else []:
        if r_op in ('*', op) and supported(alg, op, cfg): out = (alg, cfg)
    return out

def same_everywhere(mgr, ref):
  for op, scope in itertools.product(QUERY_OPS, SCOPES):
    assert mgr.get_quantization_configs(op, scope) == ref.resolve(op, scope), (op, scope)

rng = random.Random(0)
for _ in range(300):  # random multi-step histories of adds and loads
  mgr, ref = rm.RecipeManager(), Reference()
  for _ in range(rng.randint(1, 9)):
    if rng.random() < 0.15:  # reload own dump (possibly with a prefix dropped)
      dump = json.loads(json.dumps(mgr.get_quantization_recipe()))[rng.randint(0, 1):]
      mgr.load_quantization_recipe(dump)
      ref = Reference()
      for d in dump: assert ref.add(d['regex'], d['operation'], Cfg.from_dict(d['op_config']), d['algorithm_key'])
      same_everywhere(mgr, ref); continue
    step = (rng.choice(REGEXES), rng.choice(OPS), rng.choice([W8, DRQ4, BAD, FORCED]), rng.choice(ALGS))
    before = mgr.get_quantization_recipe()
    try: mgr.add_quantization_config(*step); accepted = True
    except rm.UnsupportedRecipeRuleError as e:  # ValueError subclass carrying the rule
      assert isinstance(e, ValueError) and e.rule.regex == step[0] and e.rule.op_config is step[2]
      accepted = False; assert mgr.get_quantization_recipe() == before
    assert ref.add(*step) == accepted, step; N[accepted] += 1
    same_everywhere(mgr, ref)
  dump = mgr.get_quantization_recipe()
  assert all(type(d['operation']) is str and type(d['algorithm_key']) is str for d in dump)
  assert dump is not mgr.get_quantization_recipe() and [d['regex'] for d in dump] == [
      x for rx, rs in ref.scopes.items() for x in [rx] * len(rs)]
# End to end: string/enum spellings and an overwritten rule give the same quantized model.
MODEL = 'ai_edge_quantizer/tests/models/conv_fc_mnist.tflite'
SIZE = len(open(MODEL, 'rb').read())
a, b = quantizer.Quantizer(MODEL), quantizer.Quantizer(MODEL)
a.update_quantization_recipe('.*', Op.FULLY_CONNECTED, DRQ4, Alg.MIN_MAX_UNIFORM_QUANT)
a.update_quantization_recipe('.*', Op.CONV_2D, W8)
a.update_quantization_recipe('.*', Op.FULLY_CONNECTED, W8)   # replaces in place
b.update_quantization_recipe('.*', 'FULLY_CONNECTED', W8, 'min_max_uniform_quantize')
b.update_quantization_recipe('.*', 'CONV_2D', W8, 'min_max_uniform_quantize')
assert a.get_quantization_recipe() == b.get_quantization_recipe() and not a.need_calibration
qa, qb = a.quantize(), b.quantize()
assert bytes(qa.quantized_model) == bytes(qb.quantized_model)
c = quantizer.Quantizer(MODEL, qa.recipe)                     # load what was saved
c.update_quantization_recipe('.*', '*', BAD)                  # '*' reset; BAD never applies
assert len(c.quantize().quantized_model) > SIZE * 0.9         # => nothing is quantized
c.update_quantization_recipe('sequential/dense', Op.FULLY_CONNECTED, W8)
assert [d['operation'] for d in c.get_quantization_recipe()] == ['*', 'FULLY_CONNECTED']
assert len(c.quantize().quantized_model) < SIZE * 0.5         # dense weights now int8
print('OK: property holds; adds accepted/rejected in random histories:', N[True], N[False])
